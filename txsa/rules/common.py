"""Helpers shared by rule modules."""
import ast

from ..cfg import CFG
from ..index import AnchorVanished, Undecided
from ..match import (src, dotted, walk_local, walk_unit, calls_in, const, NOCONST, is_none,
                     assigned_targets, callee_attr, receiver, mentions, shape, shape_prefix, Hole,
                     shape_text, FUNC_TYPES, eval_small, UNKNOWN, Unknown, is_noise)

_cfg_cache = {}


def helper_inliner(unit):
    """inline(call): `self.m()` (no arguments) whose method body is a single
    `return <expr>` (docstring allowed) is replaced by <expr> - one level."""
    ci = getattr(unit, 'owner_cls', None)
    idx = getattr(unit, 'idx', None)
    if ci is None or idx is None:
        return None

    def inline(call):
        d = dotted(call.func)
        if d is None or call.args or call.keywords:
            return None
        parts = d.split('.')
        if len(parts) != 2 or parts[0] != 'self':
            return None
        m = idx.find_method(ci, parts[1])
        if m is None or isinstance(m.node, ast.Lambda):
            return None
        body = [st for st in m.node.body if not is_noise(st)]
        if len(body) == 1 and isinstance(body[0], ast.Return) and body[0].value is not None:
            if len(m.params) == 1:
                return body[0].value
        return None
    return inline


def cfg_of(unit, **kw):
    if 'inline' not in kw:
        kw['inline'] = helper_inliner(unit)
    key = (id(unit), tuple(sorted((k, id(v) if callable(v) else v) for k, v in kw.items() if k != 'inline')))
    if key not in _cfg_cache:
        _cfg_cache[key] = (unit, CFG(unit, **kw))
    return _cfg_cache[key][1]


def node_roots(n):
    """the AST roots evaluated *at* a CFG node."""
    a = n.ast
    if a is None:
        return []
    if n.kind == 'iter':
        return [a.iter]
    if n.kind == 'with':
        return [i.context_expr for i in a.items]
    if n.kind == 'handler':
        return []
    if n.kind == 'def':
        return []
    return [a]


def node_asts(n):
    """all AST nodes evaluated at CFG node n (not inside nested defs), roughly in
    evaluation order (inner before outer)."""
    out = []
    for r in node_roots(n):
        for x in walk_local(r, descend_root=False):
            out.append(x)
    out.sort(key=lambda x: (getattr(x, 'end_lineno', 0) or 0, getattr(x, 'end_col_offset', 0) or 0))
    return out


def path_effects(path, classify):
    """ordered [(tag, cfg node, ast node)] along a path; classify(ast)->tag|None.
    A statement node is classified itself (for assignments) and so is every
    expression inside it."""
    out = []
    for n, lab in path.steps:
        if n.kind in ('join', 'entry', 'exit'):
            continue
        for a in node_asts(n):
            t = classify(a)
            if t is not None:
                if isinstance(t, (list, tuple)):
                    for tt in t:
                        out.append((tt, n, a))
                else:
                    out.append((t, n, a))
    return out


def node_effects(n, classify):
    out = []
    for a in node_asts(n):
        t = classify(a)
        if t is not None:
            out.append((t, a))
    return out


def is_call_to(a, *names):
    """a is Call whose dotted callee equals one of names."""
    return isinstance(a, ast.Call) and dotted(a.func) in names


def is_method_call(a, attr, recv_pred=None):
    if not (isinstance(a, ast.Call) and isinstance(a.func, ast.Attribute) and a.func.attr == attr):
        return False
    if recv_pred is None:
        return True
    return recv_pred(a.func.value)


def assign_to(a, target_text):
    """a is Assign/AugAssign/AnnAssign writing exactly `target_text`; returns value node or None."""
    if isinstance(a, ast.Assign):
        for t in a.targets:
            if dotted(t) == target_text:
                return a.value
            if isinstance(t, (ast.Tuple, ast.List)):
                for i, e in enumerate(t.elts):
                    if dotted(e) == target_text:
                        if isinstance(a.value, (ast.Tuple, ast.List)) and len(a.value.elts) == len(t.elts):
                            return a.value.elts[i]      # parallel assignment
                        return a.value
    elif isinstance(a, (ast.AugAssign, ast.AnnAssign)):
        if dotted(a.target) == target_text:
            return a.value
    return None


def writes_of(unit, target_text):
    """statements in unit (own body) assigning target_text -> [(stmt, value)]"""
    out = []
    for n in walk_unit(unit):
        if isinstance(n, (ast.Assign, ast.AugAssign, ast.AnnAssign)):
            v = assign_to(n, target_text)
            if v is not None:
                out.append((n, v))
    return out


def class_units(idx, ci, include_subclasses=True):
    """all units lexically inside class ci (methods + nested), plus subclasses'."""
    classes = [ci] + (idx.subclasses(ci) if include_subclasses else [])
    out = []
    for u in idx.all_units():
        if u.owner_cls in classes:
            out.append(u)
    return out


def local_defs(unit):
    """name -> list of definitions in the unit's own body.
    A definition is ('expr', value) | ('elem', value, index) | ('param',) | ('for', iter) |
    ('aug', value) | ('other', node)."""
    defs = {}

    def add(name, d):
        defs.setdefault(name, []).append(d)
    node = unit.node
    a = node.args
    for x in list(getattr(a, 'posonlyargs', [])) + list(a.args) + list(a.kwonlyargs):
        add(x.arg, ('param',))
    if a.vararg:
        add(a.vararg.arg, ('param',))
    if a.kwarg:
        add(a.kwarg.arg, ('param',))

    def bind(t, value, via):
        if isinstance(t, ast.Name):
            add(t.id, via(value))
        elif isinstance(t, (ast.Tuple, ast.List)):
            for i, e in enumerate(t.elts):
                if isinstance(e, ast.Name):
                    if via is _expr:
                        add(e.id, ('elem', value, i))
                    else:
                        add(e.id, ('forelem', value, i))
                else:
                    bind(e, value, lambda v: ('other', v))
    _expr = lambda v: ('expr', v)
    for n in walk_unit(unit):
        if isinstance(n, ast.Assign):
            for t in n.targets:
                bind(t, n.value, _expr)
        elif isinstance(n, ast.AnnAssign) and n.value is not None:
            bind(n.target, n.value, _expr)
        elif isinstance(n, ast.AugAssign):
            if isinstance(n.target, ast.Name):
                add(n.target.id, ('aug', n.value, n.op))
        elif isinstance(n, (ast.For, ast.AsyncFor)):
            bind(n.target, n.iter, lambda v: ('for', v))
        elif isinstance(n, ast.comprehension):
            bind(n.target, n.iter, lambda v: ('for', v))
        elif isinstance(n, (ast.With, ast.AsyncWith)):
            for it in n.items:
                if it.optional_vars is not None:
                    bind(it.optional_vars, it.context_expr, lambda v: ('with', v))
        elif isinstance(n, ast.ExceptHandler) and n.name:
            add(n.name, ('except', n.type))
        elif isinstance(n, ast.NamedExpr):
            bind(n.target, n.value, _expr)
        elif isinstance(n, (ast.FunctionDef, ast.AsyncFunctionDef, ast.ClassDef)):
            add(n.name, ('def', n))
        elif isinstance(n, (ast.Import, ast.ImportFrom)):
            for al in n.names:
                add((al.asname or al.name).split('.')[0], ('import', n))
    return defs


def single_def(defs, name):
    d = defs.get(name, [])
    return d[0] if len(d) == 1 else None


def expr_defs_for_shape(defs):
    """name -> [value] for names with only plain expression definitions (for match.shape)."""
    out = {}
    for k, ds in defs.items():
        if all(d[0] == 'expr' for d in ds):
            out[k] = [d[1] for d in ds]
    return out


def find_units_calling(idx, attr, units=None):
    """[(unit, call)] for every call whose callee's last component is `attr`."""
    out = []
    for u in (units if units is not None else idx.all_units()):
        for c in calls_in(u):
            if callee_attr(c) == attr:
                out.append((u, c))
    return out


def fmt_path(cfg, nodes, limit=8):
    parts = []
    for n in nodes:
        if n.kind in ('join', 'entry'):
            continue
        if n.kind == 'exit':
            parts.append('<%s>' % n.exit_kind)
        else:
            parts.append('L%d:%s' % (n.lineno, n.text()[:40]))
    if len(parts) > limit:
        parts = parts[:limit // 2] + ['...'] + parts[-limit // 2:]
    return ' -> '.join(parts)


def int_constants_compared_with(unit_or_units, text):
    """integer constants appearing in comparisons (or arithmetic inside comparisons)
    that mention dotted `text`."""
    units = unit_or_units if isinstance(unit_or_units, (list, tuple)) else [unit_or_units]
    out = set()
    for u in units:
        for n in walk_unit(u):
            if isinstance(n, ast.Compare) and mentions(n, text):
                for c in ast.walk(n):
                    if isinstance(c, ast.Constant) and isinstance(c.value, int) and not isinstance(c.value, bool):
                        out.add(c.value)
    return out


def representatives(consts, extra=()):
    reps = set(extra)
    for c in consts:
        reps.update((c - 1, c, c + 1))
    return sorted(reps)


def hook_for_env(env, frozen_after_write=True):
    """paths() eval_hook deciding tests through eval_small over env; a variable
    written earlier on the trail is no longer decided."""
    def hook(node, val, trail):
        e = dict(env)
        if frozen_after_write:
            for n, lab in trail:
                if n.kind in ('stmt', 'iter', 'with') and n.ast is not None:
                    for t in assigned_targets(n.ast) if isinstance(n.ast, ast.stmt) else []:
                        for k in list(e):
                            if t and (k == t or k.startswith(t + '.')):
                                del e[k]
        v = eval_small(node.ast, e)
        if v is UNKNOWN:
            return None
        return bool(v)
    return hook


# ------------------------------------------------------------ reaching definitions
def node_assigns(n, name):
    """does CFG node n write local/dotted `name`?"""
    a = n.ast
    if a is None:
        return False
    if n.kind == 'iter':
        return name in assigned_targets(a)
    if n.kind == 'with':
        return name in assigned_targets(a)
    if n.kind == 'handler':
        return a.name == name
    if n.kind == 'def':
        return getattr(a, 'name', None) == name
    if isinstance(a, ast.stmt):
        return name in assigned_targets(a)
    return False


def reaching_defs(g, node, name):
    """CFG nodes assigning `name` that reach `node` without an intervening assignment.
    The pseudo-definition 'entry' (parameter / undefined) is reported as g.entry."""
    out, seen = [], set()
    stack = [p for _, p in node.pred]
    while stack:
        n = stack.pop()
        if n.id in seen:
            continue
        seen.add(n.id)
        if node_assigns(n, name):
            out.append(n)
            continue
        if n is g.entry:
            out.append(n)
            continue
        for _, p in n.pred:
            stack.append(p)
    return out


def def_value(n, name):
    """value expression node n assigns to name (Assign only), else None."""
    if n.ast is not None and isinstance(n.ast, ast.Assign):
        return assign_to(n.ast, name)
    return None



# ------------------------------------------------------------------- facts established by dominating tests (polarity-aware)
_POS = {'member': ast.In, 'equal': ast.Eq, 'same': ast.Is}
_NEG = {'member': ast.NotIn, 'equal': ast.NotEq, 'same': ast.IsNot}


def established(g, n, kind, match, positive=True):
    """does some test edge that dominates CFG node n establish the fact <left> in/==/is <right> (positive) or its negation?
    `match(compare_ast)` selects the comparisons of interest.  Both spellings count: `a in b` on its true edge and `a not in b` on
    its false edge establish membership; the other two establish non-membership."""
    pos, neg = _POS[kind], _NEG[kind]
    for t, lab in g.guarded_by(n, lambda t_: isinstance(t_, ast.Compare) and len(t_.ops) == 1 and isinstance(t_.ops[0], (pos, neg)) and match(t_)):
        is_pos = isinstance(t.ast.ops[0], pos)
        if ((lab == 'T') == is_pos) == positive:
            return True
    return False

# ------------------------------------------------------------------- call graph
def resolve_refs(idx, unit):
    """Units referenced from `unit`: calls and bare references (callbacks) to
    self.<method>, nested/sibling functions, module-level functions of the package.
    Returns [(target_unit, ast_node, 'call'|'ref')]."""
    out = []
    ci = unit.owner_cls
    mod = unit.module
    called = set()
    for a in walk_unit(unit):
        if isinstance(a, ast.Call):
            called.add(id(a.func))
    for a in walk_unit(unit):
        kind = 'call' if id(a) in called else 'ref'
        tgt = None
        if isinstance(a, ast.Attribute) and isinstance(a.value, ast.Name) and a.value.id == 'self' and ci is not None \
                and isinstance(a.ctx, ast.Load):
            tgt = idx.find_method(ci, a.attr)
        elif isinstance(a, ast.Name) and isinstance(a.ctx, ast.Load):
            u = unit
            while u is not None and tgt is None:
                for c in u.children:
                    if c.name == a.id:
                        tgt = c
                        break
                u = u.parent
            if tgt is None and a.id in mod.functions:
                tgt = mod.functions[a.id]
            if tgt is None and a.id in mod.imports:
                origin = mod.imports[a.id]
                mname, _, fname = origin.rpartition('.')
                if mname in idx.modules and fname in idx.modules[mname].functions:
                    tgt = idx.modules[mname].functions[fname]
        elif isinstance(a, ast.Attribute) and isinstance(a.ctx, ast.Load):
            d = dotted(a)
            if d and '.' in d:
                head, _, fname = d.rpartition('.')
                origin = mod.imports.get(head)
                if origin in idx.modules and fname in idx.modules[origin].functions:
                    tgt = idx.modules[origin].functions[fname]
        elif isinstance(a, ast.Lambda):
            for c in unit.children:
                if c.node is a:
                    tgt = c
        if tgt is not None and tgt is not unit:
            out.append((tgt, a, kind))
    return out


def reach_units(idx, roots, cut=()):
    """units reachable from roots through resolve_refs, not expanding units named in `cut`."""
    seen, order = set(), []
    stack = list(roots)
    while stack:
        u = stack.pop()
        if u.qual in seen:
            continue
        seen.add(u.qual)
        order.append(u)
        if u.name in cut and u not in roots:
            continue
        for t, a, k in resolve_refs(idx, u):
            stack.append(t)
        for c in u.children:
            if isinstance(c.node, ast.Lambda):
                stack.append(c)
    return order


# ------------------------------------------------------------- role discovery (rename-robustness)
def names_defined_by(unit, pred):
    """local names one of whose plain definitions satisfies pred(value_ast)."""
    out = []
    for k, ds in local_defs(unit).items():
        for d in ds:
            if d[0] in ('expr',) and pred(d[1]):
                out.append(k)
                break
    return out


def one_name(unit, pred, what):
    ns = names_defined_by(unit, pred)
    if len(ns) != 1:
        raise Undecided('%s: expected one local for %s, found %s' % (unit.short, what, ns))
    return ns[0]


def returned_names(unit):
    return sorted(set(r.value.id for r in walk_unit(unit) if isinstance(r, ast.Return) and isinstance(r.value, ast.Name)))


def starred_arg_name(call):
    for a in call.args:
        if isinstance(a, ast.Starred) and isinstance(a.value, ast.Name):
            return a.value.id
    return None


def norm_src(node, mapping):
    """source text with local names replaced by role names (for rename-insensitive comparison)."""
    class R(ast.NodeTransformer):
        def visit_Name(self, n):
            return ast.copy_location(ast.Name(id=mapping.get(n.id, n.id), ctx=n.ctx), n)
    import copy
    return src(R().visit(copy.deepcopy(node)))


# ------------------------------------------------------------------ dropped Deferreds
DEFERRED_API = ('queue_command', 'get_info', 'get_info_raw', 'get_info_single', 'get_info_incremental', 'get_conf', 'get_conf_single',
                'get_conf_raw', 'set_conf', 'signal', 'add_event_listener', 'remove_event_listener', 'save', 'attach_protocol',
                '_add_ephemeral_service', '_await_descriptor_upload', '_create_socks_endpoint', 'set_attacher', 'authenticate',
                'protocolinfo', '_add_events', 'create', 'connect', 'when_built', 'when_connected', 'when_done', 'add_endpoint',
                '_validate_ports', 'available_tcp_port', '_get_defaults', 'post_bootstrap', 'get_config',
                '_default_socks_endpoint', 'create_socks_endpoint')


def dropped_deferreds(run, rid, units, what):
    """In a generator-style coroutine a bare expression statement calling a Deferred-returning API
    neither waits for the operation nor sees its failure.  (Zero instances on the pinned tree.)"""
    n = 0
    for u in units:
        if not (u.is_inline_callbacks() or isinstance(u.node, ast.AsyncFunctionDef)):
            continue
        for st in walk_unit(u):
            if isinstance(st, (ast.Yield, ast.Await)):
                n += 1
            if isinstance(st, ast.Expr) and isinstance(st.value, ast.Call) and callee_attr(st.value) in DEFERRED_API:
                run.ob(rid, u, st, 'every asynchronous step of %s is awaited' % what, False, slot='dropped-deferred@%s:%s' % (u.short, callee_attr(st.value)),
                       message='%s calls %s without yielding it: the coroutine goes on before the operation finished and its failure is lost' % (u.short, src(st.value)[:60]))
            elif isinstance(st, ast.Expr) and isinstance(st.value, ast.Attribute) and st.value.attr in DEFERRED_API:
                run.ob(rid, u, st, 'every asynchronous step of %s is awaited' % what, False, slot='dropped-deferred@%s:%s' % (u.short, st.value.attr),
                       message='%s mentions %s without yielding it' % (u.short, src(st.value)[:60]))
        run.ob(rid, u, u.node, 'no dropped Deferred in %s' % u.short, True)
    return n


def borrow(run, fn, new_prefix):
    """run a rule function of another property and file its obligations / findings under new_prefix"""
    n_ob, n_f, n_u = len(run.obligations), len(run.findings), len(run.undecided)
    fn(run)
    for o in run.obligations[n_ob:]:
        o['rule'] = new_prefix + '/' + o['rule']
    for f in run.findings[n_f:]:
        f.rule = new_prefix + '/' + f.rule
    for u in run.undecided[n_u:]:
        u['rule'] = new_prefix + '/' + u['rule']


# ---------------------------------------------------------------- totality
STR_METHOD_ARITY = {'join': (1, 1), 'strip': (0, 1), 'lstrip': (0, 1), 'rstrip': (0, 1), 'lower': (0, 0), 'upper': (0, 0),
                    'startswith': (1, 3), 'endswith': (1, 3), 'split': (0, 2), 'rsplit': (0, 2), 'replace': (2, 3), 'encode': (0, 2),
                    'decode': (0, 2), 'find': (1, 3), 'partition': (1, 1), 'rpartition': (1, 1)}


def _caught(unit, node, names):
    """is `node` lexically inside a try body whose handlers catch one of `names` (or everything)?"""
    for t in walk_unit(unit):
        if isinstance(t, ast.Try) and any(node is x for b in t.body for x in ast.walk(b)):
            for h in t.handlers:
                if h.type is None:
                    return True
                hs = [dotted(x) for x in (h.type.elts if isinstance(h.type, ast.Tuple) else [h.type])]
                if any((x or '').split('.')[-1] in names for x in hs):
                    return True
    return False


def partial_sites(unit):
    """Operations in `unit` that raise on some runtime value and are not locally handled:
    [(ast node, description)].  Recognised: a constant-key subscript load on a mapping that is not
    behind a membership test or a KeyError handler; a str-constant method called with an impossible
    number of arguments; destructuring a computed sequence of unknown length."""
    out = []
    g = cfg_of(unit)
    for a in walk_unit(unit):
        if isinstance(a, ast.Subscript) and isinstance(a.ctx, ast.Load) and isinstance(const(a.slice), str) and isinstance(a.value, ast.Name):
            if _caught(unit, a, ('KeyError', 'LookupError', 'Exception', 'BaseException')):
                continue
            key, m = const(a.slice), a.value.id
            guarded = False
            for n in g.nodes_containing(a):
                for t, lab in g.guarded_by(n, lambda t: isinstance(t, ast.Compare) and len(t.ops) == 1 and isinstance(t.ops[0], (ast.In, ast.NotIn))
                                           and const(t.left) == key and dotted(t.comparators[0]) == m):
                    if (lab == 'T') == isinstance(t.ast.ops[0], ast.In):
                        guarded = True
            if not guarded:
                out.append((a, '%s raises KeyError when %r is absent' % (src(a), key)))
        elif isinstance(a, ast.Call) and isinstance(a.func, ast.Attribute) and isinstance(const(a.func.value), (str, bytes)) \
                and a.func.attr in STR_METHOD_ARITY and not any(isinstance(x, ast.Starred) for x in a.args) and not a.keywords:
            lo, hi = STR_METHOD_ARITY[a.func.attr]
            if not (lo <= len(a.args) <= hi):
                out.append((a, '%s always raises TypeError (%s takes %d..%d arguments)' % (src(a)[:60], a.func.attr, lo, hi)))
        elif isinstance(a, ast.Assign) and isinstance(a.targets[0], (ast.Tuple, ast.List)) and isinstance(a.value, ast.Call) \
                and callee_attr(a.value) in ('split', 'rsplit') and not _caught(unit, a, ('ValueError', 'Exception', 'BaseException')):
            out.append((a, '%s raises ValueError when the separator is absent' % src(a)[:60]))
    return out


# ------------------------------------------------------------ extract-method robustness
class _Subst(ast.NodeTransformer):
    def __init__(self, mapping):
        self.mapping = mapping

    def visit_Name(self, node):
        if isinstance(node.ctx, ast.Load) and node.id in self.mapping:
            import copy as _c
            return ast.copy_location(_c.deepcopy(self.mapping[node.id]), node)
        return node


def inline_local_helpers(unit):
    """A view of `unit` in which statement-level calls of its own nested, return-less helper functions
    (`helper(a, b)` as an expression statement) are replaced by the helper's body with the arguments
    substituted for the parameters.  Rules that describe the shape of a function then see the same thing
    whether or not a duplicated block was folded into a local helper.  Helpers that assign to a parameter,
    use *args/**kw, defaults, yield, or return a value are left alone."""
    import copy as _c
    helpers = {}
    for ch in unit.children:
        n = ch.node
        if not isinstance(n, ast.FunctionDef) or n.decorator_list:
            continue
        a = n.args
        if a.vararg or a.kwarg or a.kwonlyargs or a.defaults or getattr(a, 'posonlyargs', []):
            continue
        params = [x.arg for x in a.args]
        body = [b for b in n.body if not (isinstance(b, ast.Expr) and isinstance(b.value, ast.Constant))]
        bad = False
        for b in body:
            for x in ast.walk(b):
                if isinstance(x, (ast.Yield, ast.YieldFrom, ast.Await, ast.Nonlocal, ast.Global)) or (isinstance(x, ast.Return) and x.value is not None):
                    bad = True
                if isinstance(x, ast.Name) and isinstance(x.ctx, ast.Store) and x.id in params:
                    bad = True
                if isinstance(x, ast.Return):
                    bad = True      # early returns would need control-flow rewriting
        if not bad and body:
            helpers[n.name] = (params, body, n)
    if not helpers:
        return unit
    used = set()

    class _Inline(ast.NodeTransformer):
        def visit_FunctionDef(self, node):
            if node is root:
                self.generic_visit(node)
                return node
            return node

        def visit_Expr(self, node):
            c = node.value
            if isinstance(c, ast.Call) and isinstance(c.func, ast.Name) and c.func.id in helpers and not c.keywords:
                params, body, hn = helpers[c.func.id]
                if len(c.args) == len(params) and not any(isinstance(x, ast.Starred) for x in c.args):
                    used.add(c.func.id)
                    sub = _Subst(dict(zip(params, c.args)))
                    out = []
                    for b in body:
                        nb = sub.visit(_c.deepcopy(b))
                        for x in ast.walk(nb):
                            if hasattr(x, 'lineno'):
                                x.lineno = node.lineno
                                x.end_lineno = getattr(node, 'end_lineno', node.lineno)
                        out.append(nb)
                    return out
            return node
    root = _c.deepcopy(unit.node)
    new = _Inline().visit(root)
    if not used:
        return unit
    # drop the inlined helper definitions when nothing else refers to them
    new.body = [b for b in new.body if not (isinstance(b, ast.FunctionDef) and b.name in used and
                                            not any(isinstance(x, ast.Name) and x.id == b.name for y in new.body if y is not b for x in ast.walk(y)))]
    ast.fix_missing_locations(new)
    view = _c.copy(unit)
    view.node = new
    view.children = [ch for ch in unit.children if ch.name not in used]
    return view


class _SubstAll(ast.NodeTransformer):
    """parameters -> argument expressions (loads), helper locals -> prefixed names (loads and stores)"""
    def __init__(self, mapping, rename):
        self.mapping, self.rename = mapping, rename

    def visit_Name(self, node):
        import copy as _c
        if isinstance(node.ctx, ast.Load) and node.id in self.mapping:
            return ast.copy_location(_c.deepcopy(self.mapping[node.id]), node)
        if node.id in self.rename:
            return ast.copy_location(ast.Name(id=self.rename[node.id], ctx=node.ctx), node)
        return node

    def visit_Lambda(self, node):
        return node

    def visit_FunctionDef(self, node):
        return node


_class_views = {}


def inline_self_helpers(idx, ci):
    """A view of class `ci` in which statement-level calls `self._helper(a, b)` of its own plain private methods are replaced by
    the helper's body (arguments substituted for parameters, the helper's locals renamed), and helpers all of whose uses were
    inlined are dropped from the method table.  Rules that describe what a method does then see the same thing whether or not a
    block shared by several methods was folded into a helper method.  Left alone: decorated methods, helpers with defaults /
    *args / **kw, parameterless helpers (named steps), helpers that return, yield or assign to a parameter, helpers referenced in any other way than such a call."""
    import copy as _c
    key = (id(idx), ci.qual)
    if key in _class_views:
        return _class_views[key]
    helpers = {}
    for name, u in ci.methods.items():
        n = u.node
        if not isinstance(n, ast.FunctionDef) or n.decorator_list or not name.startswith('_') or name.startswith('__'):
            continue
        a = n.args
        if a.vararg or a.kwarg or a.kwonlyargs or a.defaults or getattr(a, 'posonlyargs', []) or not a.args or a.args[0].arg != 'self':
            continue
        params = [x.arg for x in a.args[1:]]
        body = [b for b in n.body if not (isinstance(b, ast.Expr) and isinstance(b.value, ast.Constant))]
        bad = not body or not params      # a parameterless private method is a named step of its own, not a folded block
        for b in body:
            for x in ast.walk(b):
                if isinstance(x, (ast.Yield, ast.YieldFrom, ast.Await, ast.Nonlocal, ast.Global, ast.Return, ast.FunctionDef, ast.Lambda)):
                    bad = True
                if isinstance(x, ast.Name) and isinstance(x.ctx, ast.Store) and x.id in params:
                    bad = True
                if isinstance(x, ast.Attribute) and dotted(x) == 'self.' + name:
                    bad = True      # recursive
        if not bad:
            helpers[name] = (params, body)
    # every reference to the helper anywhere in the class is a statement-level call with matching arity
    for name in list(helpers):
        params, _ = helpers[name]
        for u in idx.all_units():
            if u.owner_cls is not ci and not (u.cls is ci):
                continue
            stmt_calls = set(id(st.value.func) for st in ast.walk(u.node) if isinstance(st, ast.Expr) and isinstance(st.value, ast.Call)
                             and dotted(st.value.func) == 'self.' + name and len(st.value.args) == len(params) and not st.value.keywords
                             and not any(isinstance(x, ast.Starred) for x in st.value.args))
            for x in ast.walk(u.node):
                if isinstance(x, ast.Attribute) and dotted(x) == 'self.' + name and id(x) not in stmt_calls:
                    helpers.pop(name, None)
    # a helper must not be referenced from outside the class either (other.<name>): be conservative on the attribute name
    for name in list(helpers):
        for u in idx.all_units():
            if u.owner_cls is ci or u.cls is ci:
                continue
            if any(isinstance(x, ast.Attribute) and x.attr == name for x in ast.walk(u.node)):
                helpers.pop(name, None)
                break
    if not helpers:
        _class_views[key] = ci
        return ci
    used = set()

    def expand(node, depth):
        class _Inline(ast.NodeTransformer):
            def visit_Expr(self, st):
                c = st.value
                if isinstance(c, ast.Call) and (dotted(c.func) or '').startswith('self.') and (dotted(c.func) or '')[5:] in helpers and depth < 4:
                    hname = dotted(c.func)[5:]
                    params, body = helpers[hname]
                    used.add(hname)
                    locs = set(x.id for b in body for x in ast.walk(b) if isinstance(x, ast.Name) and isinstance(x.ctx, ast.Store))
                    sub = _SubstAll(dict(zip(params, c.args)), dict((l, '%s__%s' % (hname.strip('_'), l)) for l in locs))
                    out = []
                    for b in body:
                        nb = sub.visit(_c.deepcopy(b))
                        for x in ast.walk(nb):
                            if hasattr(x, 'lineno'):
                                x.lineno = st.lineno
                                x.end_lineno = getattr(st, 'end_lineno', st.lineno)
                        nb = expand(nb, depth + 1)
                        out.extend(nb if isinstance(nb, list) else [nb])
                    return out
                return st

            def visit_FunctionDef(self, fn):
                if fn is node:
                    self.generic_visit(fn)
                return fn

            def visit_Lambda(self, fn):
                return fn
        return _Inline().visit(node)
    view = _c.copy(ci)
    view.methods = {}
    for name, u in ci.methods.items():
        if name in helpers:
            continue
        if not isinstance(u.node, (ast.FunctionDef, ast.AsyncFunctionDef)) or not any(
                isinstance(x, ast.Attribute) and (dotted(x) or '')[5:] in helpers and (dotted(x) or '').startswith('self.') for x in ast.walk(u.node)):
            view.methods[name] = u
            continue
        root = _c.deepcopy(u.node)
        newn = expand(root, 0)
        ast.fix_missing_locations(newn)
        vu = _c.copy(u)
        vu.node = newn
        view.methods[name] = vu
    for name in helpers:
        if name not in used:
            view.methods[name] = ci.methods[name]
    _class_views[key] = view
    return view


def required_await(run, rid, unit, what_pred, before_pred, what, before, slot):
    """must-precede: a `yield <expr matching what_pred>` exists in unit and dominates every node matching before_pred"""
    g = cfg_of(unit)
    ys = g.nodes_where(lambda n: any(isinstance(a, ast.Yield) and a.value is not None and what_pred(a.value) for a in node_asts(n)))
    bs = g.nodes_where(lambda n: any(before_pred(a) for a in node_asts(n)))
    if not bs:
        raise AnchorVanished('%s: no %s' % (unit.short, before))
    ok = bool(ys) and all(any(g.dominates(y, b) for y in ys) for b in bs)
    run.ob(rid, unit, (ys[0].ast if ys else unit.node), '%s is awaited before %s' % (what, before), ok, slot=slot,
           message='%s does not wait for %s before %s' % (unit.short, what, before))



# ------------------------------------------------------------ a tiny token interpreter for small pure functions
class MiniUndecided(Exception):
    pass


def mini_interp(fn_node, leaf, max_steps=200):
    """Evaluate a small function over *tokens*: leaf(expr) maps an expression to a token (any hashable; the string 'NONE' is None,
    falsy tokens are listed in mini_interp.FALSY) or returns None for "not a leaf".  Supports assignment to names, if/elif/else,
    conditional expressions, and/or/not, `is (not) None`, ==/!= between tokens, return.  Anything else raises MiniUndecided.
    Returns the token returned ('NONE' when the function falls off its end)."""
    env = {}
    FALSY = ('NONE', 'FALSE', 'EMPTY')

    def ev(e):
        t = leaf(e)
        if t is not None:
            return t
        if isinstance(e, ast.Constant):
            if e.value is None:
                return 'NONE'
            if e.value is False:
                return 'FALSE'
            if e.value is True:
                return 'TRUE'
            return ('const', e.value)
        if isinstance(e, ast.Name):
            if e.id in env:
                return env[e.id]
            raise MiniUndecided('name %s' % e.id)
        if isinstance(e, ast.IfExp):
            return ev(e.body) if truth(ev(e.test)) else ev(e.orelse)
        if isinstance(e, ast.UnaryOp) and isinstance(e.op, ast.Not):
            return 'FALSE' if truth(ev(e.operand)) else 'TRUE'
        if isinstance(e, ast.BoolOp):
            v = None
            for x in e.values:
                v = ev(x)
                if isinstance(e.op, ast.And) and not truth(v):
                    return v
                if isinstance(e.op, ast.Or) and truth(v):
                    return v
            return v
        if isinstance(e, ast.Compare) and len(e.ops) == 1:
            a, b = ev(e.left), ev(e.comparators[0])
            op = e.ops[0]
            if isinstance(op, (ast.Is, ast.Eq)):
                return 'TRUE' if a == b else 'FALSE'
            if isinstance(op, (ast.IsNot, ast.NotEq)):
                return 'FALSE' if a == b else 'TRUE'
        raise MiniUndecided(src(e)[:60])

    def truth(t):
        return t not in FALSY

    class _Ret(Exception):
        pass

    steps = [0]

    def run_block(stmts):
        for st in stmts:
            steps[0] += 1
            if steps[0] > max_steps:
                raise MiniUndecided('too long')
            if isinstance(st, ast.Expr) and isinstance(st.value, ast.Constant):
                continue
            if isinstance(st, ast.Pass):
                continue
            if isinstance(st, ast.Expr) and isinstance(st.value, ast.Call) and (dotted(st.value.func) or '').split('.')[0] in ('log', 'txtorlog', 'warnings', 'logging', 'logger'):
                continue        # tracing does not take part in the result
            if isinstance(st, ast.Return):
                r = _Ret()
                r.value = ev(st.value) if st.value is not None else 'NONE'
                raise r
            if isinstance(st, ast.Assign) and len(st.targets) == 1 and isinstance(st.targets[0], ast.Name):
                env[st.targets[0].id] = ev(st.value)
                continue
            if isinstance(st, ast.If):
                run_block(st.body if truth(ev(st.test)) else st.orelse)
                continue
            raise MiniUndecided(src(st)[:60])
    try:
        run_block(fn_node.body)
    except _Ret as r:
        return r.value
    return 'NONE'
