"""Rule registry. Each module cNN defines RULES = [(rule_id, description, function(run))]."""
import importlib
import traceback

from ..index import AnchorVanished, Undecided

PROPS = ['C%02d' % i for i in range(1, 21)]


def load(prop):
    return importlib.import_module('txsa.rules.' + prop.lower())


def available():
    out = []
    for p in PROPS:
        try:
            load(p)
            out.append(p)
        except ImportError:
            pass
    return out


def run_rules(run, only=None):
    mod = load(run.prop)
    canon = getattr(run.idx, 'canonicalised', [])
    if canon:
        # findings below use the recorded names; say which source names they stand for
        run.notes.append('names canonicalised (source name -> recorded name): ' + ', '.join('%s: %s -> %s' % (sc, new, old) for sc, new, old, _ in canon[:12]) +
                         (' ...' if len(canon) > 12 else ''))
    for rid, text, fn in mod.RULES:
        if only and rid not in only:
            continue
        run.rule(rid, text)
        try:
            fn(run)
        except AnchorVanished as e:
            run.undecide(rid, '-', 'anchor vanished: %s' % e)
        except Undecided as e:
            run.undecide(rid, '-', 'undecided: %s' % e)
        except Exception as e:  # a checker bug must never look like a violation
            tb = traceback.format_exc().strip().splitlines()
            run.undecide(rid, '-', 'ANALYSIS-ERROR %s: %s | %s' % (type(e).__name__, e, ' / '.join(tb[-6:])))
    if only and 'R-X' not in only:
        run.settle()
        return
    from . import xcut
    run.rule('R-X', 'cross-cutting definite-fault patterns in every function the rules above examined: late-bound closure over a loop variable, '
                    'impossible arity on a str-literal method, strip() with a multi-character literal, identity comparison with a literal')
    try:
        xcut.check(run)
    except Exception as e:
        tb = traceback.format_exc().strip().splitlines()
        run.undecide('R-X', '-', 'ANALYSIS-ERROR %s: %s | %s' % (type(e).__name__, e, ' / '.join(tb[-6:])))
    run.settle()
