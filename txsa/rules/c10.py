"""C10 - config changes reach Tor only on save, as one SETCONF with exactly the changes."""
import ast

from .common import *  # noqa

MOD = 'torconfig'
EFFECTS = ('queue_command', 'set_conf', 'save', 'get_conf', 'get_conf_raw', 'get_info', 'get_info_raw', 'signal',
           'add_event_listener', 'remove_event_listener')
TRACKED = ('append', 'extend', 'insert', 'remove', 'pop', '__setitem__')


def TC(run):
    return run.idx.cls('TorConfig', MOD)


def CU(run, name):
    u = run.idx.find_method(TC(run), name)
    if u is None:
        raise AnchorVanished('TorConfig.' + name)
    return u


def r10_1(run):
    idx = run.idx
    tc = TC(run)
    roots = [CU(run, n) for n in ('__setattr__', '__getattr__', 'mark_unsaved', '_maybe_create_listwrapper', '_find_real_name',
                                  '__contains__', '__iter__', 'needs_save', 'get_type')]
    wr = idx.unit(MOD + '._wrapture')
    roots.append(wr)
    roots += wr.children
    hs = idx.cls('HiddenService', MOD)
    if '__setattr__' in hs.methods:
        roots.append(hs.methods['__setattr__'])
    # dynamic dispatch: every TorConfigType.validate
    base = idx.cls('TorConfigType', MOD)
    for c in [base] + idx.subclasses(base):
        if 'validate' in c.methods:
            roots.append(c.methods['validate'])
    lw = idx.cls('_ListWrapper', MOD)
    roots += list(lw.methods.values())
    reach = reach_units(idx, roots)
    run.count('units reachable from the setters', len(reach))
    k = 0
    for u in reach:
        for c in calls_in(u):
            a = callee_attr(c)
            d = dotted(c.func) or ''
            if a in EFFECTS and a != 'save' or (a == 'save' and d.startswith('self.')) or d.endswith('transport.write'):
                k += 1
                run.ob('R10.1', u, c, 'attribute access / in-place list edits send nothing', False, slot='effect@%s:%s' % (u.short, a),
                       message='%s (reachable from a config setter/getter) calls %s: a command is sent before save()' % (u.short, d))
        run.ob('R10.1', u, u.node, 'effect-free: %s' % u.short, True)
    run.floor('R10.1', 'units examined', len(reach), 12)
    wrapper_callbacks(run, 'R10.1')


def wrapper_callbacks(run, rid):
    """the on_modify slot of every tracked list marks that list's own option: it binds the option name
    when the wrapper is built (functools.partial, or a lambda default), never a late-bound loop variable"""
    idx = run.idx
    n = 0
    for u in idx.all_units():
        for c in calls_in(u):
            if dotted(c.func) == '_ListWrapper' and len(c.args) >= 2:
                n += 1
                cb = c.args[1]
                ok = isinstance(cb, ast.Call) and dotted(cb.func) in ('functools.partial', 'partial') and len(cb.args) == 2 and (dotted(cb.args[0]) or '').endswith('.mark_unsaved')
                bound = cb.args[1] if ok else None
                if isinstance(cb, ast.Lambda) and isinstance(cb.body, ast.Call) and (dotted(cb.body.func) or '').endswith('.mark_unsaved') and len(cb.body.args) == 1:
                    a = cb.body.args[0]
                    params = [p.arg for p in cb.args.args]
                    if isinstance(a, ast.Name) and a.id in params and len(cb.args.defaults) == len(params):
                        ok = True
                        bound = cb.args.defaults[params.index(a.id)]
                run.ob(rid, u, c, 'list wrapper callback binds its option name when built: partial(mark_unsaved, name)', ok, slot='on_modify@%s' % u.short,
                       message='%s builds a _ListWrapper whose modification callback is %s: a name looked up when the list is edited is '
                               'whatever the enclosing loop / function last set it to, so the edit is recorded under another option' % (u.short, src(cb)[:60]))
                # stored directly under a key: the bound name is that key
                par = None
                for st in walk_unit(u):
                    if isinstance(st, ast.Assign) and st.value is c and isinstance(st.targets[0], ast.Subscript):
                        par = st
                if par is not None and bound is not None:
                    run.ob(rid, u, par, 'the wrapper marks the option it is stored under', src(par.targets[0].slice) == src(bound), slot='on_modify-key@%s' % u.short,
                           message='%s stores the list under %s but edits mark %s' % (u.short, src(par.targets[0].slice), src(bound)))
    run.floor(rid, '_ListWrapper constructions', n, 6)


def wrap_always(run, rid):
    """whatever validate() returned, a list value is wrapped before it becomes the pending value: the is-it-a-list test
    lies on every path from the setup-mode test to the store (only LineList.validate returns a tracked list itself)"""
    sa = CU(run, '__setattr__')
    g = cfg_of(sa)
    vp = sa.params[2]
    st = g.nodes_where(lambda n: n.kind == 'stmt' and isinstance(n.ast, ast.Assign) and isinstance(n.ast.targets[0], ast.Subscript) and dotted(n.ast.targets[0].value) == 'self.unsaved')
    lt = [t for t in g.live if t.kind == 'test' and isinstance(t.ast, ast.Call) and dotted(t.ast.func) == 'isinstance' and len(t.ast.args) == 2
          and dotted(t.ast.args[0]) == vp and dotted(t.ast.args[1]) == 'list']
    run.floor(rid, 'is-it-a-list tests in __setattr__', len(lt), 1)
    tests = [t for t in g.live if t.kind == 'test' and isinstance(t.ast, ast.Call) and dotted(t.ast.func) == 'has_setup_attr']
    for t in tests:
        nxt = [s_ for lab, s_ in t.succ if lab == 'T']
        r = g.reachable(nxt, avoid=lambda n: n in lt, follow_exc=False)
        hit = [n for n in st if n in r]
        run.ob(rid, sa, t.ast, 'a list value is wrapped on every path to the pending set', not hit, slot='wrap-on-every-path',
               message='TorConfig.__setattr__ can store the value without testing whether it is a list (the wrap is skipped on the validate() leg): '
                       'a plain list assigned to a comma-list / port option is sent once, but later in-place edits are not tracked')
    for t in lt:
        ws = [n for n in g.real_nodes() if n.kind == 'stmt' and isinstance(n.ast, ast.Assign) and vp in assigned_targets(n.ast)
              and isinstance(n.ast.value, ast.Call) and dotted(n.ast.value.func) == '_ListWrapper' and g.edge_dominates(t, 'T', n)]
        run.ob(rid, sa, t.ast, 'a list value is replaced by a _ListWrapper', bool(ws), slot='wrap-site', message='no _ListWrapper(...) assignment under isinstance(value, list)')


def r10_8(run):
    """a filesystem onion service is part of the HiddenServices option: assigning one of its settings, or editing its port list in
    place, marks that option as pending (otherwise the change never reaches Tor on save); setters stay effect-free (R10.1)"""
    fs = run.idx.cls('FilesystemOnionService', 'onion')
    if fs is None:
        raise AnchorVanished('onion.FilesystemOnionService')
    k = 0
    setters = [u for u in run.idx.all_units() if u.owner_cls is fs and any(d.endswith('.setter') for d in u.decorators())]
    for u in setters:
        k += 1
        g = cfg_of(u)
        marks = g.nodes_where(lambda n: any(isinstance(a, ast.Call) and (dotted(a.func) or '').endswith('.mark_unsaved') and a.args and const(a.args[0]) == 'HiddenServices'
                                            for a in node_asts(n)))
        deleg = g.nodes_where(lambda n: n.kind == 'stmt' and isinstance(n.ast, ast.Assign) and any((dotted(t) or '').startswith('self.') and not (dotted(t) or '').startswith('self._')
                                                                                                 for t in n.ast.targets))
        r = g.reachable([g.entry], avoid=lambda n: n in marks or n in deleg, follow_exc=False)
        run.ob('R10.8', u, u.node, 'assigning %s of a filesystem onion service marks HiddenServices as pending' % u.name, not any(e in r for e in g.normal_exits()),
               slot='setter-marks:%s' % u.name, message='FilesystemOnionService.%s setter can return without mark_unsaved(\'HiddenServices\'): save() sends nothing for the change' % u.name)
        if u.name == 'ports':
            lw_names = set(['_ListWrapper']) | set((al.asname or al.name) for im in walk_unit(u) if isinstance(im, ast.ImportFrom) for al in im.names if al.name == '_ListWrapper')
            wr = [n for n in walk_unit(u) if isinstance(n, ast.Call) and dotted(n.func) in lw_names]
            okw = bool(wr) and all(len(c.args) == 2 and isinstance(c.args[1], ast.Call) and dotted(c.args[1].func) in ('functools.partial', 'partial')
                                   and (dotted(c.args[1].args[0]) or '').endswith('.mark_unsaved') and const(c.args[1].args[1]) == 'HiddenServices' for c in wr)
            run.ob('R10.8', u, u.node, 'the port list is a tracked list bound to HiddenServices', okw, slot='ports-tracked',
                   message='the ports setter does not wrap the list in _ListWrapper(..., partial(mark_unsaved, \'HiddenServices\')): in-place edits of .ports are not tracked')
    run.floor('R10.8', 'setters of FilesystemOnionService', k, 3)


def r10_10(run):
    """in-place edits are tracked for every list-typed option: the list-type predicate agrees with every option type's parser (shared
    with R11.4)"""
    from . import c11
    c11.list_types_agree(run, 'R10.10')


def r10_11(run):
    """round trip of the one three-valued scalar type: Boolean+Auto.  parse() (what Tor says -> what reads return) and validate()
    (what was assigned -> what is sent) partition the integers the same way: negative = auto (-1 <-> 'auto'), zero = 0, positive = 1.
    Decided by evaluating both functions' tests on the representatives -2, -1, 0, 1, 2 (the value is only compared / tested)."""
    ci = run.idx.cls('Boolean_Auto', MOD)
    if ci is None:
        raise AnchorVanished('torconfig.Boolean_Auto')
    want = {-2: ('auto', -1), -1: ('auto', -1), 0: (0, 0), 1: (1, 1), 2: (1, 1)}
    for fname, idx_ in (('validate', 0), ('parse', 1)):
        u = run.idx.find_method(ci, fname)
        g = cfg_of(u)
        p = u.params[1]
        for v in sorted(want):
            def hook(node, val, trail, v=v):
                r = eval_small(node.ast, {p: v, 'int(%s)' % p: v})
                return None if r is UNKNOWN else bool(r)
            outs = set()
            for p_ in g.paths(eval_hook=hook, follow_exc=False):
                run.paths_enumerated += 1
                if p_.exit == 'raise':
                    continue
                rets = [n.ast for n, _ in p_.steps if n.kind == 'stmt' and isinstance(n.ast, ast.Return)]
                if rets and rets[-1].value is not None:
                    rv = rets[-1].value
                    if isinstance(rv, ast.IfExp):
                        t_ = eval_small(rv.test, {p: v, 'int(%s)' % p: v})
                        rv = None if t_ is UNKNOWN else (rv.body if t_ else rv.orelse)
                    outs.add(const(rv) if rv is not None and const(rv) is not NOCONST else ('?' + (src(rv) if rv is not None else '')))
            ok = outs == set([want[v][idx_]])
            run.ob('R10.11', u, u.node, 'Boolean_Auto.%s(%d) is %r' % (fname, v, want[v][idx_]), ok if not any(str(o).startswith('?') for o in outs) else None,
                   slot='boolean-auto:%s:%d' % (fname, v),
                   message='Boolean_Auto.%s(%d) gives %s, wanted %r: the value sent / read for a three-valued option assigned %d is not the one parse() and validate() '
                           'agree on (negative = auto)' % (fname, v, sorted(map(str, outs)), want[v][idx_], v))


def r10_9(run):
    """one pending entry per option: the pending set is keyed by Tor's canonical spelling, whatever capitalisation the caller used
    (otherwise two assignments to one option under different spellings are both sent) - rule R11.2, shared"""
    from . import c11
    borrow(run, c11.r11_2, 'R10.9')


def r10_7(run):
    """every attribute assignment in setup mode becomes the pending value (last assignment wins)"""
    sa = CU(run, '__setattr__')
    g = cfg_of(sa)
    st = g.nodes_where(lambda n: n.kind == 'stmt' and isinstance(n.ast, ast.Assign) and isinstance(n.ast.targets[0], ast.Subscript) and dotted(n.ast.targets[0].value) == 'self.unsaved')
    run.floor('R10.7', 'stores into unsaved in __setattr__', len(st), 1)
    tests = [t for t in g.live if t.kind == 'test' and isinstance(t.ast, ast.Call) and dotted(t.ast.func) == 'has_setup_attr']
    for t in tests:
        nxt = [s_ for lab, s_ in t.succ if lab == 'T']
        r = g.reachable(nxt, avoid=lambda n: n in st, follow_exc=False)
        esc = [e for e in g.normal_exits() if e in r]
        run.ob('R10.7', sa, t.ast, 'a configuration assignment always becomes the pending value', not esc, slot='always-pending',
               message='TorConfig.__setattr__ can return without recording the assignment in unsaved: an earlier pending value for the same option is sent instead')
    for n in st:
        v = n.ast.value
        run.ob('R10.7', sa, n.ast, 'the pending value is the assigned (validated) value', dotted(v) == sa.params[2], slot='pending-value', message='unsaved[...] = %s' % src(v))
    wrap_always(run, 'R10.7')
    # each assigned list gets its own wrapper bound to the option it was assigned to
    for t in g.live:
        if t.kind == 'test' and '_ListWrapper' in src(t.ast):
            run.ob('R10.7', sa, t.ast, 'every assigned list is wrapped for its own option (no sharing of a wrapper between options)', False, slot='wrap-every-list',
                   message='__setattr__ skips wrapping when the value is already a _ListWrapper: two options then share one list whose change callback names the other option')


def r10_2(run):
    idx = run.idx
    lw = idx.cls('_ListWrapper', MOD)
    wrapped = {}
    for name, v in lw.attrs.items():
        if isinstance(v, ast.Call) and dotted(v.func) == '_wrapture' and v.args:
            wrapped[name] = dotted(v.args[0])
    # the same installed by a loop after the class: for name in <tuple of names>: setattr(_ListWrapper, name, _wrapture(getattr(list, name)))
    for st in lw.module.tree.body:
        if isinstance(st, ast.For) and isinstance(st.target, ast.Name) and len(st.body) == 1 and isinstance(st.body[0], ast.Expr):
            c = st.body[0].value
            names = const(st.iter)
            if isinstance(st.iter, ast.Name) and st.iter.id in lw.module.assigns:
                names = const(lw.module.assigns[st.iter.id])
            if isinstance(c, ast.Call) and dotted(c.func) == 'setattr' and len(c.args) == 3 and dotted(c.args[0]) == '_ListWrapper' and dotted(c.args[1]) == st.target.id \
                    and isinstance(c.args[2], ast.Call) and dotted(c.args[2].func) == '_wrapture' and len(c.args[2].args) == 1 and isinstance(names, (list, tuple)):
                g_ = c.args[2].args[0]
                if isinstance(g_, ast.Call) and dotted(g_.func) == 'getattr' and len(g_.args) == 2 and dotted(g_.args[0]) == 'list' and dotted(g_.args[1]) == st.target.id:
                    for nm in names:
                        if isinstance(nm, str):
                            wrapped[nm] = 'list.' + nm
    for m in TRACKED:
        ok = wrapped.get(m) == 'list.' + m
        run.ob('R10.2', lw.file, lw.attrs.get(m, lw.node), 'list.%s is wrapped so that it marks the option unsaved' % m, ok, slot='wrapped:%s' % m,
               message='_ListWrapper.%s is %s: in-place %s no longer marks the option as changed' % (m, wrapped.get(m, 'not wrapped'), m))
    run.floor('R10.2', 'wrapped list mutators', len(wrapped), 6)
    bases_ok = 'list' in lw.bases
    run.ob('R10.2', lw.file, lw.node, '_ListWrapper is a list', bases_ok, slot='base', message='_ListWrapper bases: %s' % lw.bases)
    wr = idx.unit(MOD + '._wrapture')
    if not wr.children:
        raise Undecided('_wrapture has no inner function')
    foo = wr.children[0]
    g = cfg_of(foo)
    for p in g.paths():
        run.paths_enumerated += 1
        if p.exit == 'raise':
            continue
        n_mod = sum(1 for n, _ in p.steps for a in node_asts(n) if n.kind == 'stmt' and isinstance(a, ast.Call) and callee_attr(a) == 'on_modify')
        n_orig = sum(1 for n, _ in p.steps for a in node_asts(n) if n.kind == 'stmt' and isinstance(a, ast.Call) and dotted(a.func) == wr.params[0])
        run.ob('R10.2', foo, foo.node, 'the wrapper calls on_modify and the original exactly once on every path', n_mod == 1 and n_orig == 1, slot='wrapper-path',
               message='_wrapture wrapper: on_modify called %d times, original %d times on %s' % (n_mod, n_orig, p.describe()))
    rets = [r for r in walk_unit(wr) if isinstance(r, ast.Return)]
    run.ob('R10.2', wr, wr.node, '_wrapture returns the wrapper', bool(rets) and dotted(rets[-1].value) == foo.name, slot='returns-wrapper', message='_wrapture returns %s' % (src(rets[-1].value) if rets else None))
    # mark_unsaved aliases the live list object
    mu = CU(run, 'mark_unsaved')
    st = [n for n in walk_unit(mu) if isinstance(n, ast.Assign) and isinstance(n.targets[0], ast.Subscript) and dotted(n.targets[0].value) == 'self.unsaved']
    ok = bool(st) and all(isinstance(s.value, ast.Subscript) and dotted(s.value.value) == 'self.config' for s in st)
    run.ob('R10.2', mu, mu.node, 'mark_unsaved records the live value object (alias, not a copy)', ok, slot='alias',
           message='mark_unsaved stores %s: later in-place edits would not be part of the pending value' % [src(s.value) for s in st])
    g = cfg_of(mu)
    for s in st:
        for n in g.nodes_containing(s):
            run.ob('R10.2', mu, s, 'an already-pending value is not overwritten by the saved one',
                   established(g, n, 'member', lambda t: dotted(t.comparators[0]) == 'self.unsaved', positive=False), slot='no-clobber',
                   message='mark_unsaved overwrites a pending value with the saved one')


def _save_loop(run):
    sv = CU(run, 'save')
    for n in walk_unit(sv):
        if isinstance(n, ast.For) and 'self.unsaved' in src(n.iter) and isinstance(n.target, ast.Tuple) and len(n.target.elts) == 2:
            return sv, n, n.target.elts[0].id, n.target.elts[1].id
    raise AnchorVanished('TorConfig.save: loop over self.unsaved.items()')


def _args_name(sv):
    for c in calls_in(sv):
        if callee_attr(c) == 'set_conf' and starred_arg_name(c):
            return starred_arg_name(c)
    raise Undecided('save: set_conf(*<list>) not found')


def r10_3(run):
    sv, loop, key, value = _save_loop(run)
    AN = _args_name(sv)
    g = cfg_of(sv)
    outer = [n for n in g.live if n.kind == 'iter' and n.ast is loop]
    if not outer:
        raise Undecided('outer loop node not found')
    outer = outer[0]
    tests = [t for t in g.live if t.kind == 'test' and isinstance(t.ast, ast.Call) and dotted(t.ast.func) == 'isinstance' and
             dotted(t.ast.args[0]) == value and dotted(t.ast.args[1]) == 'list' and t.owner in ast.walk(loop)]
    # every pending key is visited: nothing leaves the loop over the pending set early (a break after the HiddenServices leg
    # would drop the options that follow it, and the acknowledgement then forgets them)
    def own_level(stmts):
        for st in stmts:
            if isinstance(st, (ast.For, ast.While)):
                for x in own_level(st.orelse):
                    yield x
                continue      # break/continue in there belong to the inner loop
            if isinstance(st, (ast.Break, ast.Return)):
                yield st
            for fld in ('body', 'orelse', 'finalbody'):
                for x in own_level(getattr(st, fld, []) or []):
                    yield x
            for h in getattr(st, 'handlers', []) or []:
                for x in own_level(h.body):
                    yield x
    early = list(own_level(loop.body))
    run.ob('R10.3', sv, early[0] if early else loop, 'the loop over the pending options is never left early', not early, slot='visit-all-pending',
           message='save() leaves the loop over self.unsaved with %s: the options after that point are not part of the SETCONF, yet the acknowledgement clears them'
                   % (type(early[0]).__name__.lower() if early else ''))
    # the first such test after the HiddenServices leg decides list vs scalar emission
    emit_tests = [t for t in tests if any(isinstance(a, ast.Call) and dotted(a.func) == AN + '.append' for b in (t.owner.body + t.owner.orelse) for a in ast.walk(b))]
    run.floor('R10.3', 'list/scalar emission tests in save', len(emit_tests), 1)
    region = set(id(a) for t in emit_tests for b in (t.owner.body + t.owner.orelse) for a in ast.walk(b))
    # what is emitted is the pending value itself (already validated by the setter): nothing re-parses, splits or wraps it
    # between the loop head and the emission - "ExitNodes = 'x,y'" is one scalar, sent once as 'x,y'
    for t in emit_tests:
        rds = reaching_defs(g, t, value)
        late = [r for r in rds if r is not outer]
        run.ob('R10.3', sv, late[0].ast if late else t.ast, 'the emission looks at the pending value as stored (no rebinding before it)', not late, slot='emit-pending-value',
               message='save() rebinds %s (%s) before building the SETCONF arguments: the option is emitted in a different shape than the '
                       'validated value that is pending' % (value, src(late[0].ast)[:70] if late else ''))
    inner_loops = [n for n in g.live if n.kind == 'iter' and id(n.ast) in region and mentions(n.ast.iter, value)]

    def is_key_append(a):
        return isinstance(a, ast.Call) and dotted(a.func) == AN + '.append' and a.args and dotted(a.args[0]) == key

    def is_val_append(a):
        return isinstance(a, ast.Call) and dotted(a.func) == AN + '.append' and a.args and dotted(a.args[0]) != key
    for t in emit_tests:
        paths = g.paths(start=t, stop=lambda n: n is outer, loop_bound=1, follow_exc=False)
        run.paths_enumerated += len(paths)
        seen = set()
        for p in paths:
            if p.last is not outer:
                continue
            lab0 = p.steps[0][1]
            is_list = lab0 == 'T'
            iters = sum(1 for n, lab in p.steps if n in inner_loops and lab == 'body')
            nonempty_lit = any(n in inner_loops and isinstance(n.ast.iter, ast.BoolOp) for n, _ in p.steps)
            # emptiness tests on the value along the path
            empty_by_test = None
            for n, lab in p.steps[1:]:
                if n.kind != 'test' or lab not in ('T', 'F'):
                    continue
                a = n.ast
                if dotted(a) == value:
                    empty_by_test = (lab == 'F')
                elif isinstance(a, ast.Compare) and ('len(%s)' % value) in src(a):
                    r0 = eval_small(a, {'len(%s)' % value: 0})
                    r1 = eval_small(a, {'len(%s)' % value: 1})
                    if r0 is not UNKNOWN and r1 is not UNKNOWN and bool(r0) != bool(r1):
                        empty_by_test = (bool(r0) == (lab == 'T'))
                elif isinstance(a, ast.Compare) and dotted(a.left) == value and isinstance(a.comparators[0], ast.List) and not a.comparators[0].elts:
                    empty_by_test = (lab == 'T') == isinstance(a.ops[0], ast.Eq)
            if is_list:
                empty_by_loop = (iters == 0) if any(n in inner_loops for n, _ in p.steps) else None
                if nonempty_lit and iters == 0:
                    continue    # `for x in (value or [''])` never runs zero times
                if empty_by_test is not None and empty_by_loop is not None and empty_by_test != empty_by_loop:
                    continue    # infeasible
            sentinel = [lab for n, lab in p.steps if n.kind == 'test' and isinstance(n.ast, ast.Compare) and 'DEFAULT_VALUE' in src(n.ast)]
            nk = sum(1 for n, _ in p.steps for a in node_asts(n) if n.kind == 'stmt' and is_key_append(a))
            nv = sum(1 for n, _ in p.steps for a in node_asts(n) if n.kind == 'stmt' and is_val_append(a))
            sig = (is_list, iters, tuple(sentinel), nk, nv, empty_by_test)
            if sig in seen:
                continue
            seen.add(sig)
            d = p.describe(8)
            if not is_list:
                run.ob('R10.3', sv, t.ast, 'a scalar option is emitted exactly once (key, value)', nk == 1 and nv == 1, slot='scalar',
                       message='save emits a changed scalar option %d times (values %d)' % (nk, nv), path=d)
            elif iters == 0 or (empty_by_test is True):
                run.ob('R10.3', sv, t.ast, 'an emptied list option is still named in the SETCONF (request to clear it)', nk >= 1 and nk == nv, slot='empty-list',
                       message='save: a list option whose list is now empty emits nothing - "cfg.Log.pop(); cfg.save()" sends '
                               'SETCONF without that option (or with no arguments at all) and then forgets the change', path=d)
            else:
                is_default = any(isinstance(n.ast, ast.Compare) and isinstance(n.ast.ops[0], ast.IsNot) and lab == 'F' or
                                 isinstance(n.ast, ast.Compare) and isinstance(n.ast.ops[0], ast.Is) and lab == 'T'
                                 for n, lab in p.steps if n.kind == 'test' and isinstance(n.ast, ast.Compare) and 'DEFAULT_VALUE' in src(n.ast))
                want = 0 if is_default else iters
                run.ob('R10.3', sv, t.ast, 'each list element is emitted once under the option name', nk == want and nv == want, slot='list-element:%s' % ('default' if is_default else 'value'),
                       message='save emits %d key / %d value entries for %d list element(s)%s' % (nk, nv, iters, ' (DEFAULT sentinel)' if is_default else ''), path=d)
    # element order: the inner loop iterates the list itself (not sorted/reversed/set)
    for n in inner_loops:
        it = n.ast.iter
        ok = dotted(it) == value or (isinstance(it, ast.BoolOp) and dotted(it.values[0]) == value)
        run.ob('R10.3', sv, n.ast, 'list elements are emitted in list order', ok, slot='order', message='save iterates %s' % src(it))
    run.floor('R10.3', 'inner element loops', len(inner_loops), 1)
    # emitted list element is the element itself (str())
    for n in inner_loops:
        tv = n.ast.target.id if isinstance(n.ast.target, ast.Name) else None
        vals = [a for b in n.ast.body for a in ast.walk(b) if is_val_append(a)]
        ok = bool(vals) and all(src(a.args[0]) in ('str(%s)' % tv, tv) for a in vals)
        run.ob('R10.3', sv, n.ast, 'the emitted value of a list element is the element', ok, slot='element-value', message='save emits %s for an element' % [src(a.args[0]) for a in vals])


def r10_4(run):
    sv, loop, key, value = _save_loop(run)
    AN = _args_name(sv)
    g = cfg_of(sv)
    sc = [c for c in calls_in(sv) if callee_attr(c) == 'set_conf']
    run.floor('R10.4', 'set_conf calls in save', len(sc), 1)
    for c in sc:
        in_loop = any(c is a for l in ast.walk(sv.node) if isinstance(l, (ast.For, ast.While)) for a in ast.walk(l))
        run.ob('R10.4', sv, c, 'set_conf is outside every loop', not in_loop, slot='outside-loop', message='set_conf is called inside a loop (one SETCONF per option)')
        ok = len(c.args) == 1 and isinstance(c.args[0], ast.Starred) and dotted(c.args[0].value) == AN
        run.ob('R10.4', sv, c, 'set_conf receives the collected arguments', ok, slot='args', message='set_conf called with %s' % src(c)[:60])
        run.ob('R10.4', sv, c, 'set_conf goes to the attached protocol', dotted(c.func) == 'self.protocol.set_conf', slot='receiver', message='set_conf receiver is %s' % dotted(c.func))
    for needs in (True, False):
        for has_proto in (True, False):
            def hook(node, val, trail, needs=needs, has_proto=has_proto):
                a = node.ast
                if isinstance(a, ast.Call) and dotted(a.func) == 'self.needs_save':
                    return needs
                if mentions(a, 'self.unsaved'):
                    r = eval_small(a, {'len(self.unsaved)': 1 if needs else 0, 'self.unsaved': [1] if needs else []})
                    return None if r is UNKNOWN else bool(r)
                if dotted(a) == 'self.protocol':
                    return has_proto
                return None
            seen = set()
            for p in g.paths(eval_hook=hook, loop_bound=1, max_paths=200000, follow_exc=False):
                run.paths_enumerated += 1
                if p.exit == 'raise':
                    continue
                n_sc = sum(1 for n, _ in p.steps for a in node_asts(n) if n.kind in ('stmt',) and isinstance(a, ast.Call) and callee_attr(a) == 'set_conf')
                if (n_sc,) in seen:
                    continue
                seen.add((n_sc,))
                want = 1 if (needs and has_proto) else 0
                run.ob('R10.4', sv, sv.node, 'save(pending=%s, protocol=%s) sends %d SETCONF' % (needs, has_proto, want), n_sc == want,
                       slot='count:%s:%s' % (needs, has_proto), message='save with pending=%s protocol=%s calls set_conf %d times' % (needs, has_proto, n_sc), path=p.describe(6))
    ns = CU(run, 'needs_save')
    rets = [r for r in walk_unit(ns) if isinstance(r, ast.Return)]
    ok = len(rets) == 1 and 'self.unsaved' in src(rets[0].value)
    run.ob('R10.4', ns, ns.node, 'needs_save looks at the pending set', ok, slot='needs_save', message='needs_save returns %s' % [src(r.value) for r in rets])
    # args only ever appended to
    for n in walk_unit(sv):
        if isinstance(n, ast.Call) and (dotted(n.func) or '').startswith(AN + '.') and callee_attr(n) not in ('append', 'extend'):        # (extend adds at the end too)
            run.ob('R10.4', sv, n, 'argument list is append-only', False, slot='args-mutation:%s' % callee_attr(n), message='save mutates args with %s' % callee_attr(n))
    a_defs = [v for st, v in [(s, s.value) for s in walk_unit(sv) if isinstance(s, ast.Assign) and dotted(s.targets[0]) == AN]]
    run.ob('R10.4', sv, sv.node, 'argument list starts empty', len(a_defs) == 1 and isinstance(a_defs[0], ast.List) and not a_defs[0].elts, slot='args-init', message='args initialised %d times' % len(a_defs))


def r10_5(run):
    tc = TC(run)
    sv = CU(run, 'save')
    k = 0
    for u in class_units(run.idx, tc):
        for n in walk_unit(u):
            hit = None
            if isinstance(n, ast.Assign):
                for t in n.targets:
                    if dotted(t) == 'self.unsaved':
                        hit = 'rebind'
            elif isinstance(n, ast.Call) and dotted(n.func) in ('self.unsaved.clear', 'self.unsaved.pop', 'self.unsaved.popitem'):
                hit = callee_attr(n)
            elif isinstance(n, ast.Delete):
                for t in n.targets:
                    if isinstance(t, ast.Subscript) and dotted(t.value) == 'self.unsaved':
                        hit = 'del'
            if hit:
                k += 1
                top = u
                while top.parent is not None:
                    top = top.parent
                ok = top.name in ('__init__', '_save_completed')
                run.ob('R10.5', u, n, 'pending set cleared only in __init__ / _save_completed', ok, slot='%s@%s' % (hit, u.short),
                       message='%s clears/rebinds the pending set (%s): changes are forgotten without Tor\'s acknowledgement' % (u.short, hit))
    run.floor('R10.5', 'clear/rebind sites of unsaved', k, 2)
    g = cfg_of(sv)
    sc_calls = [c for c in calls_in(sv) if callee_attr(c) == 'set_conf']
    chains = [c for c in calls_in(sv) if callee_attr(c) in ('addCallback', 'addBoth', 'addErrback', 'addCallbacks') and c.args and dotted(c.args[0]) == 'self._save_completed']
    run.floor('R10.5', '_save_completed attachments', len(chains), 1)
    for c in chains:
        ok = callee_attr(c) == 'addCallback'
        run.ob('R10.5', sv, c, '_save_completed runs only on success (addCallback)', ok, slot='attach-kind',
               message='_save_completed attached with %s: a rejected save clears the pending changes' % callee_attr(c))
        r = receiver(c)
        okr = False
        if isinstance(r, ast.Name):
            for n in g.nodes_containing(c):
                vals = [def_value(x, r.id) for x in reaching_defs(g, n, r.id)]
                okr = bool(vals) and all(isinstance(v, ast.Call) and callee_attr(v) == 'set_conf' for v in vals)
        elif isinstance(r, ast.Call) and callee_attr(r) == 'set_conf':
            okr = True
        run.ob('R10.5', sv, c, "_save_completed is chained on the SETCONF's Deferred", okr, slot='attach-recv', message='_save_completed attached to %s' % src(r))
        # ... and nothing earlier on that chain turns Tor's rejection into a success: an errback (addErrback / addBoth / addCallbacks)
        # attached before _save_completed must hand the failure on (return its argument / re-raise on every path)
        if isinstance(r, ast.Name):
            for n in g.nodes_containing(c):
                for e in calls_in(sv):
                    if callee_attr(e) not in ('addErrback', 'addBoth', 'addCallbacks') or dotted(receiver(e)) != r.id:
                        continue
                    en = g.nodes_containing(e)
                    if not en or not any(n in g.reachable([s_ for _, s_ in x.succ]) for x in en):
                        continue
                    hf = e.args[1] if callee_attr(e) == 'addCallbacks' and len(e.args) > 1 else (e.args[0] if e.args else None)
                    passes = False
                    hu = None
                    if hf is not None and (dotted(hf) or '').startswith('self.'):
                        hu = run.idx.find_method(tc, dotted(hf)[5:])
                    elif isinstance(hf, ast.Name):
                        hu = next((ch for ch in sv.children if ch.name == hf.id), None)
                    if hu is not None and hu.params:
                        fp = hu.params[1] if hu.params[0] == 'self' and len(hu.params) > 1 else hu.params[0]
                        gh = cfg_of(hu)
                        passes = gh.exit_fall not in gh.live and all(
                            (isinstance(x.ast.value, ast.Name) and x.ast.value.id == fp) for x in gh.real_nodes() if x.kind == 'stmt' and isinstance(x.ast, ast.Return))
                    run.ob('R10.5', sv, e, 'an errback in front of _save_completed hands the failure on', passes, slot='errback-before-completed',
                           message='save() attaches %s before _save_completed and that errback does not return the failure on every path: a SETCONF Tor rejected '
                                   'continues into _save_completed, the pending changes are dropped and save() reports success' % src(e)[:60])
    direct = [c for c in calls_in(sv) if dotted(c.func) == 'self._save_completed']
    for c in direct:
        for n in g.nodes_containing(c):
            gd = g.guarded_by(n, lambda t: dotted(t) == 'self.protocol')
            run.ob('R10.5', sv, c, '_save_completed called directly only without a protocol', any(lab == 'F' for _, lab in gd), slot='direct-call',
                   message='save calls _save_completed directly while a protocol is attached (before Tor acknowledged)')
    # the Deferred save returns is the chained one
    sc_ = CU(run, '_save_completed')
    ok = any(isinstance(n, ast.Assign) and assign_to(n, 'self.unsaved') is not None for n in walk_unit(sc_))
    run.ob('R10.5', sc_, sc_.node, '_save_completed empties the pending set', ok, slot='completed-clears', message='_save_completed no longer clears unsaved')
    # ... on every path: after the acknowledgement nothing that was sent stays pending.  A path without the wholesale reset is
    # accepted only if what it deletes is not chosen by comparing the pending (validated) value with the stored (parsed) one -
    # the two forms differ for Boolean+Auto, comma lists given as strings, floats given as strings
    gsc = cfg_of(sc_)
    resets = gsc.nodes_where(lambda n: n.kind == 'stmt' and isinstance(n.ast, ast.Assign) and assign_to(n.ast, 'self.unsaved') is not None
                             or any(is_call_to(a, 'self.unsaved.clear') for a in node_asts(n)))
    skip = gsc.reachable([gsc.entry], avoid=lambda n: n in resets, follow_exc=False)
    if any(e in skip for e in gsc.normal_exits()):
        dels = gsc.nodes_where(lambda n: n.kind == 'stmt' and (isinstance(n.ast, ast.Delete) or any(is_call_to(a, 'self.unsaved.pop') for a in node_asts(n))))
        bad = []
        for dn in dels:
            bad += [t for t, lab in gsc.guarded_by(dn, lambda t: isinstance(t, ast.Compare) and mentions(t, 'self.config') and mentions(t, 'self.unsaved'))]
        run.ob('R10.5', sc_, bad[0].ast if bad else sc_.node, 'after the acknowledgement nothing that was sent stays pending', bool(dels) and not bad, slot='completed-clears-all',
               message='_save_completed has a path that keeps entries pending %s: an acknowledged option is sent again by every later save'
                       % ('unless %s (pending values are in validated form, stored ones in parsed form)' % src(bad[0].ast) if bad else '(no deletion at all)'))


def r10_6(run):
    """in-place tracking relies on unsaved[name] *being* the list object config[name] holds: save()
    must store the pending list itself, never a copy or a re-wrapped list"""
    sv, loop, key, value = _save_loop(run)
    g = cfg_of(sv)
    outer = [n for n in g.live if n.kind == 'iter' and n.ast is loop][0]
    k = 0
    for n in g.real_nodes():
        if n.kind != 'stmt' or not isinstance(n.ast, ast.Assign) or assign_to(n.ast, value) is None:
            continue
        if not any(n.ast is a for a in ast.walk(loop)):
            continue
        k += 1
        # is this redefinition reachable with the pending value being a list?
        gd = g.guarded_by(n, lambda t: isinstance(t, ast.Call) and dotted(t.func) == 'isinstance' and dotted(t.args[0]) == value and dotted(t.args[1]) == 'list')
        on_list_leg = False
        for t, lab in gd:
            # the isinstance test must look at the loop variable itself (no earlier redefinition)
            rds = reaching_defs(g, t, value)
            if lab == 'T' and all(r is outer for r in rds):
                on_list_leg = True
        run.ob('R10.6', sv, n.ast, 'a pending list object is stored as-is (identity kept between unsaved and config)', not on_list_leg, slot='list-identity',
               message='save() replaces a pending list by %s before storing it: the object in config is no longer the one in '
                       'unsaved, so after a rejected SETCONF further in-place edits go to the copy and are lost on retry' % src(n.ast.value)[:60])
    run.floor('R10.6', 'redefinitions of the pending value in save', k, 1)
    # and the store itself uses that variable
    st = [n for n in walk_unit(sv) if isinstance(n, ast.Assign) and isinstance(n.targets[0], ast.Subscript) and dotted(n.targets[0].value) == 'self.config'
          and any(n is a for a in ast.walk(loop))]
    ok = bool(st) and all(dotted(s_.value) == value for s_ in st)
    run.ob('R10.6', sv, sv.node, 'the current value becomes the pending value object', ok, slot='store-value', message='save stores %s' % [src(s_.value) for s_ in st])


def r10_12(run):
    """scalar options with their validated value: what save() hands to set_conf reaches the wire as that value - quoted and escaped
    when it contains a blank or a quote, verbatim otherwise (Tor takes unquoted values literally).  Rule R12.1, shared"""
    from . import c12
    borrow(run, c12.r12_1, 'R10.12')


RULES = [
    ('R10.7', 'setter post-condition: every assignment reaches unsaved[name] = value; every list value is wrapped for its own option', r10_7),
    ('R10.8', 'onion-service setters mark HiddenServices pending; the port list is tracked', r10_8),
    ('R10.12', 'the value set_conf writes is the validated value: quoted+escaped iff it needs quoting, else verbatim (R12.1 borrowed)', r10_12),
    ('R10.9', 'name routing: config / parsers / unsaved are indexed only with _find_real_name results (R11.2 borrowed)', r10_9),
    ('R10.10', 'is_list_config_type evaluated per declared option type against what its parse() returns', r10_10),
    ('R10.11', 'sibling agreement of Boolean_Auto.parse / validate on the sign classes of the value (representatives -2..2)', r10_11),
    ('R10.6', 'identity flow: the pending list object itself becomes the current value (no copy / re-wrap on the list leg)', r10_6),
    ('R10.1', 'effect analysis on the call graph: nothing reachable from attribute access / list wrappers sends a command', r10_1),
    ('R10.2', 'tracked mutators: the six list mutators are wrapped; wrapper calls on_modify and the original once; mark_unsaved aliases the live list', r10_2),
    ('R10.3', 'path enumeration of the emission region of save (loop bound incl. 0 iterations): scalar once, list once per element in order, empty list still emitted', r10_3),
    ('R10.4', 'one set_conf(*args) outside loops, exactly once iff pending and protocol', r10_4),
    ('R10.5', 'pending set cleared only in _save_completed, attached with addCallback to the SETCONF Deferred', r10_5),
]

from ..selftest import M  # noqa: E402
F = 'txtorcon/torconfig.py'
MUTANTS = [
    M('rejection-logged-and-swallowed', F, ["            d.addCallback(self._save_completed)\n            return d", "    def _save_completed(self, *args):"], ["            d.addErrback(self._save_failed)\n            d.addCallback(self._save_completed)\n            return d", "    def _save_failed(self, fail):\n        fail.trap(TorProtocolError)\n        log.msg(str(fail.value))\n\n    def _save_completed(self, *args):"], ['R10.5']),
    M('auto-only-minus-one', F, "        s = int(s)\n        if s < 0:\n            return 'auto'", "        s = int(s)\n        if s == -1:\n            return 'auto'", ['R10.11']),
    M('list-types-by-tuple', F, "    return 'List' in klass.__name__ or klass.__name__ in ['HiddenServices']", "    return klass in (LineList, CommaList, RouterList)", ['R10.10']),
    M('ports-setter-no-mark', 'txtorcon/onion.py', "            functools.partial(self._config.mark_unsaved, 'HiddenServices'),\n        )\n        self._config.mark_unsaved('HiddenServices')\n\n    @property\n    def directory(self):", "            functools.partial(self._config.mark_unsaved, 'HiddenServices'),\n        )\n\n    @property\n    def directory(self):", ['R10.8']),
    M('hs-leg-breaks', F, "                            args.append(k)\n                            args.append(v)\n                continue\n", "                            args.append(k)\n                            args.append(v)\n                break\n", ['R10.3']),
    M('wrap-only-without-validate', F, "                value = self.parsers[name].validate(value, self, name)\n            if isinstance(value, list):", "                value = self.parsers[name].validate(value, self, name)\n            elif isinstance(value, list):", ['R10.7']),
    M('ack-clears-only-equal', F, "        self.__dict__['unsaved'] = {}\n        return self", "        for key in list(self.unsaved):\n            if self.unsaved[key] == self.config.get(key):\n                del self.unsaved[key]\n        return self", ['R10.5']),
    M('mark_unsaved-saves', F, "        if name in self.config and name not in self.unsaved:\n            self.unsaved[name] = self.config[self._find_real_name(name)]", "        if name in self.config and name not in self.unsaved:\n            self.unsaved[name] = self.config[self._find_real_name(name)]\n            self.save()", ['R10.1']),
    M('setattr-sends', F, "            name = self._find_real_name(name)\n            self.unsaved[name] = value\n", "            name = self._find_real_name(name)\n            self.unsaved[name] = value\n            if self._protocol is not None:\n                self._protocol.set_conf(name, value)\n", ['R10.1']),
    M('insert-not-wrapped', F, "    insert = _wrapture(list.insert)\n", "", ['R10.2']),
    M('wrapper-skips-on_modify', F, "        obj = args[0]\n        obj.on_modify()\n        return orig(*args)", "        obj = args[0]\n        if len(obj):\n            obj.on_modify()\n        return orig(*args)", ['R10.2']),
    M('mark_unsaved-copies', F, "            self.unsaved[name] = self.config[self._find_real_name(name)]", "            self.unsaved[name] = list(self.config[self._find_real_name(name)])", ['R10.2']),
    M('listify-before-emission', F, "            if isinstance(value, list):\n                for x in value:\n                    # FIXME XXX", "            if self._find_real_name(key) in self.list_parsers and not isinstance(value, list):\n                value = self.parsers[self._find_real_name(key)].parse(value)\n            if isinstance(value, list):\n                for x in value:\n                    # FIXME XXX", ['R10.3']),
    M('scalar-key-twice', F, "            else:\n                args.append(key)\n                args.append(value)\n\n            # FIXME", "            else:\n                args.append(key)\n                args.append(key)\n                args.append(value)\n\n            # FIXME", ['R10.3']),
    M('list-first-element-only', F, "                for x in value:\n                    # FIXME XXX\n                    if x is not DEFAULT_VALUE:\n                        args.append(key)\n                        args.append(str(x))\n", "                for x in value[:1]:\n                    # FIXME XXX\n                    if x is not DEFAULT_VALUE:\n                        args.append(key)\n                        args.append(str(x))\n", ['R10.3']),
    M('list-sorted', F, "                for x in value:\n                    # FIXME XXX", "                for x in sorted(value):\n                    # FIXME XXX", ['R10.3']),
    M('set_conf-per-option', F, "            real_name = self._find_real_name(key)\n            if not isinstance(value, list) and real_name in self.parsers:", "            if self.protocol:\n                self.protocol.set_conf(*args)\n            real_name = self._find_real_name(key)\n            if not isinstance(value, list) and real_name in self.parsers:", ['R10.4']),
    M('addBoth', F, "            d.addCallback(self._save_completed)\n            return d", "            d.addBoth(self._save_completed)\n            return d", ['R10.5']),
    M('clear-before-ack', F, "        if self.protocol:\n            d = self.protocol.set_conf(*args)\n            d.addCallback(self._save_completed)\n            return d", "        if self.protocol:\n            d = self.protocol.set_conf(*args)\n            self.unsaved.clear()\n            d.addCallback(self._save_completed)\n            return d", ['R10.5']),
]
TWINS = [
    M('rejection-logged-and-passed-on', F, ["            d.addCallback(self._save_completed)\n            return d", "    def _save_completed(self, *args):"], ["            d.addErrback(self._save_failed)\n            d.addCallback(self._save_completed)\n            return d", "    def _save_failed(self, fail):\n        log.msg(str(fail.value))\n        return fail\n\n    def _save_completed(self, *args):"]),
    M('list-types-by-issubclass', F, "    return 'List' in klass.__name__ or klass.__name__ in ['HiddenServices']", "    return issubclass(klass, (LineList, CommaList, RouterList))"),
    M('items-snapshot', F, "        for (key, value) in self.unsaved.items():", "        for (key, value) in list(self.unsaved.items()):"),
    M('orig-before-on_modify-result', F, "        obj = args[0]\n        obj.on_modify()\n        return orig(*args)", "        obj = args[0]\n        obj.on_modify()\n        result = orig(*args)\n        return result"),
    M('needs_save-bool', F, "        return len(self.unsaved) > 0", "        return bool(len(self.unsaved))"),
]
