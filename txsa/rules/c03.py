"""C03 - connection loss fails every unanswered command once; nothing is left pending."""
import ast

from .common import *  # noqa
from . import c01, so
from .c01 import U, proto, WRITE_CALLS


def _empties_queue(a):
    """does this AST node empty self.commands?"""
    if isinstance(a, ast.Assign):
        v = assign_to(a, 'self.commands')
        if v is not None:
            return (isinstance(v, (ast.List, ast.Tuple)) and not v.elts) or \
                   (isinstance(v, ast.Call) and dotted(v.func) in ('list', 'deque', 'collections.deque') and not v.args)
    if isinstance(a, ast.Call) and dotted(a.func) == 'self.commands.clear':
        return True
    if isinstance(a, ast.Delete):
        for t in a.targets:
            if isinstance(t, ast.Subscript) and dotted(t.value) == 'self.commands' and isinstance(t.slice, ast.Slice) \
                    and t.slice.lower is None and t.slice.upper is None:
                return True
    return False


def r03_1(run):
    cl = U(run, 'connectionLost')
    idx_d, idx_cmd, idx_cb, app, tup = c01.queue_layout(run)
    g = cfg_of(cl)
    defs = local_defs(cl)
    # errback loops
    loops = []
    for lp in [n for n in walk_unit(cl) if isinstance(n, ast.For)]:
        tg = lp.target
        dname = None
        if isinstance(tg, (ast.Tuple, ast.List)) and len(tg.elts) > idx_d and isinstance(tg.elts[idx_d], ast.Name):
            dname = tg.elts[idx_d].id
        errs = [c for c in ast.walk(lp) if isinstance(c, ast.Call) and callee_attr(c) == 'errback']
        if dname is None and isinstance(tg, ast.Name):
            dname = '%s[%d]' % (tg.id, idx_d)        # the entry kept whole: its Deferred is <entry>[idx]
        if errs:
            loops.append((lp, dname, errs))
    run.floor('R03.1', 'errback loops in connectionLost', len(loops), 1)
    cover_cmd = cover_queue = False
    for lp, dname, errs in loops:
        it = c01._resolve_name(defs, lp.iter)
        srcs = [it]
        if isinstance(lp.iter, ast.Name):
            # a list assembled step by step: every definition of the local and what is inserted / appended / added to it
            nm = lp.iter.id
            for n_ in walk_unit(cl):
                if isinstance(n_, ast.Assign) and assign_to(n_, nm) is not None:
                    srcs.append(assign_to(n_, nm))
                elif isinstance(n_, ast.AugAssign) and dotted(n_.target) == nm:
                    srcs.append(n_.value)
                elif isinstance(n_, ast.Call) and callee_attr(n_) in ('insert', 'append', 'extend', 'appendleft') and dotted(receiver(n_)) == nm and n_.args:
                    srcs.append(n_.args[-1])
        if any(mentions(x, 'self.command') for x in srcs):
            cover_cmd = True
        if any(mentions(x, 'self.commands') for x in srcs):
            cover_queue = True
        if isinstance(it, ast.IfExp):
            if dotted(it.test) == 'self.command':
                okb = mentions(it.body, 'self.command') and mentions(it.body, 'self.commands') and mentions(it.orelse, 'self.commands')
                run.ob('R03.1', cl, lp, 'both legs of the outstanding-list expression include the queue', okb, slot='outstanding-legs',
                       message='outstanding commands expression %s drops the queued commands on one leg' % src(it))
        for e in errs:
            r = dotted(receiver(e)) or src(receiver(e))
            ok = dname is not None and r == dname
            run.ob('R03.1', cl, e, "the loop errbacks each command's Deferred (tuple element %d)" % idx_d, ok, slot='errback-target',
                   message='errback is called on %s, the Deferred is tuple element %d (%s)' % (r, idx_d, dname))
            arg = e.args[0] if e.args else None
            txt = src(arg) if arg is not None else ''
            run.ob('R03.1', cl, e, 'commands fail with TorDisconnectError', 'TorDisconnectError' in txt, slot='errback-type',
                   message='outstanding commands are failed with %s, not a TorDisconnectError' % txt[:80])
    # inside the loop: a command whose Deferred has not fired yet is failed, whatever else is true of it (no callbacks
    # attached yet, a QUIT, a clean close ...): the only test that may skip the errback is "already called"
    for lp, dname, errs in loops:
        if dname is None:
            continue
        first = [n for n in g.live if n.kind == 'iter' and n.ast is lp]
        if not first:
            continue

        def hook(node, val, trail, dname=dname):
            a = node.ast
            neg = False
            while isinstance(a, ast.UnaryOp) and isinstance(a.op, ast.Not):
                a, neg = a.operand, not neg
            if (dotted(a) or src(a)) == dname + '.called':
                return neg          # called is False
            return None
        body_start = [s_ for lab, s_ in first[0].succ if lab == 'body']
        for p_ in g.paths(start=body_start[0], stop=lambda n: n is first[0], eval_hook=hook, loop_bound=1, follow_exc=False) if body_start else []:
            run.paths_enumerated += 1
            if p_.exit == 'raise':
                continue
            ne = sum(1 for n, _ in p_.steps if n.kind == 'stmt' for a in node_asts(n) if isinstance(a, ast.Call) and callee_attr(a) == 'errback' and (dotted(receiver(a)) or src(receiver(a))) == dname)
            nc = sum(1 for n, _ in p_.steps if n.kind == 'stmt' for a in node_asts(n) if isinstance(a, ast.Call) and callee_attr(a) == 'callback' and (dotted(receiver(a)) or src(receiver(a))) == dname)
            run.ob('R03.1', cl, lp, 'every command whose Deferred has not fired is failed exactly once', ne == 1 and nc == 0, slot='loop-fails-each',
                   message='the errback loop has a path on which an unanswered command gets %d errback(s) and %d callback(s): %s' % (ne, nc, p_.describe(6)),
                   path=p_.describe(8))
    run.ob('R03.1', cl, cl.node, 'the in-flight command is among those failed', cover_cmd, slot='covers-inflight',
           message='connectionLost does not errback the in-flight command (self.command)')
    run.ob('R03.1', cl, cl.node, 'all queued commands are among those failed', cover_queue, slot='covers-queue',
           message='connectionLost does not errback the queued commands (self.commands)')

    def cls(a):
        if isinstance(a, ast.Call) and dotted(a.func) == 'self._when_disconnected.fire':
            return 'fire'
        if _empties_queue(a):
            return 'empty_queue'
        if isinstance(a, ast.Call) and dotted(a.func) in ('self.commands.pop', 'self.commands.popleft'):
            return 'drain'
        if isinstance(a, ast.Assign):
            out = []
            for f, t in (('self.command', 'reset_command'), ('self.defer', 'reset_defer')):
                v = assign_to(a, f)
                if v is not None and is_none(v):
                    out.append(t)
            return out or None
        return None
    seen = {}
    for p in g.paths(loop_bound=1):
        run.paths_enumerated += 1
        if p.exit == 'raise':
            continue
        tags = [t for t, _, _ in path_effects(p, cls)]
        key = tuple(sorted(set(tags)) + [tags.count('fire')])
        if key in seen:
            continue
        seen[key] = p
        d = p.describe(8)
        run.ob('R03.1', cl, cl.node, 'disconnect observers notified exactly once', tags.count('fire') == 1, slot='notify-once',
               message='connectionLost fires _when_disconnected %d times on %s' % (tags.count('fire'), d))
        run.ob('R03.1', cl, cl.node, 'in-flight slot cleared on loss', 'reset_command' in tags and 'reset_defer' in tags, slot='slot-cleared',
               message='connectionLost leaves self.command/self.defer set on %s' % d)
        run.ob('R03.1', cl, cl.node, 'queue emptied on loss', 'empty_queue' in tags or 'drain' in tags, slot='queue-emptied',
               message='connectionLost leaves the failed commands in self.commands: a later submission re-fires '
                       'their Deferreds (AlreadyCalledError) and the in-flight slot stays occupied')
    # re-entrancy: errbacks run user code, which may submit commands; the slot and the
    # queue must already be in their post-loss state when the first errback runs
    resets = dict((tag, g.nodes_where(lambda n, tag=tag: any(tag in (cls(a) if isinstance(cls(a), list) else [cls(a)])
                                                            for a in node_asts(n))))
                  for tag in ('reset_command', 'reset_defer', 'empty_queue'))
    for lp, dname, errs in loops:
        for e in errs:
            for en in g.nodes_containing(e):
                for tag, nodes in resets.items():
                    if not nodes:
                        continue
                    ok = any(g.dominates(rn, en) for rn in nodes)
                    run.ob('R03.1', cl, e, 'protocol state is reset before the first errback runs (%s)' % tag, ok, slot='reset-before-errback:' + tag,
                           message='connectionLost errbacks commands before %s: a command submitted from an errback '
                                   'is queued behind the stale state and then dropped (never fires)' % tag.replace('_', ' '))
    # the fired value is a Failure(TorDisconnectError)
    for c in calls_in(cl, 'self._when_disconnected.fire'):
        txt = src(c.args[0]) if c.args else ''
        run.ob('R03.1', cl, c, 'observers receive Failure(TorDisconnectError)', 'Failure' in txt and 'TorDisconnectError' in txt,
               slot='notify-type', message='_when_disconnected fired with %s' % txt[:80])


def _partial_ops(stmts, loop_names):
    """statements / expressions that can raise on some runtime value: destructuring a computed
    sequence, constant index into a split, int()/float()/next() conversion"""
    out = []
    for st in stmts:
        for a in ast.walk(st):
            if isinstance(a, ast.Assign) and any(isinstance(t, (ast.Tuple, ast.List)) for t in a.targets):
                v = a.value
                if not (isinstance(v, (ast.Tuple, ast.List)) or (isinstance(v, ast.Name) and v.id in loop_names)):
                    out.append((a, 'unpacks %s into %d names' % (src(v)[:50], len(a.targets[0].elts))))
            elif isinstance(a, ast.Subscript) and isinstance(a.value, ast.Call) and callee_attr(a.value) in ('split', 'rsplit', 'partition', 'groups') \
                    and not isinstance(a.slice, ast.Slice) and const(a.slice) not in (0, NOCONST):
                out.append((a, 'indexes %s' % src(a)[:50]))
            elif isinstance(a, ast.Call) and dotted(a.func) in ('int', 'float', 'next'):
                out.append((a, 'converts with %s' % src(a)[:50]))
    return out


def r03_4(run):
    """Two necessary conditions on the order of things inside connectionLost.
    (a) the snapshot of the outstanding commands is taken after the last observer notification: a command
        submitted from a notification is otherwise neither in the snapshot nor kept by the reset.
    (b) nothing in the errback loop can raise besides the errback itself: an exception there leaves every
        later command pending for ever."""
    cl = U(run, 'connectionLost')
    g = cfg_of(cl)
    defs = local_defs(cl)
    loops = [lp for lp in walk_unit(cl) if isinstance(lp, ast.For) and any(isinstance(c, ast.Call) and callee_attr(c) == 'errback' for c in ast.walk(lp))]
    run.floor('R03.4', 'errback loops in connectionLost', len(loops), 1)
    in_loop = set()
    for lp in loops:
        for a in ast.walk(lp):
            in_loop.add(id(a))
    # (a)
    snaps = []
    for lp in loops:
        if isinstance(lp.iter, ast.Name):
            for n in g.real_nodes():
                if n.kind == 'stmt' and isinstance(n.ast, ast.Assign) and assign_to(n.ast, lp.iter.id) is not None \
                        and (mentions(n.ast.value, 'self.commands') or mentions(n.ast.value, 'self.command')):
                    snaps.append(n)
    resets = g.nodes_where(lambda n: any(_empties_queue(a) for a in node_asts(n)))
    notif = [n for n in g.real_nodes() if n.kind == 'stmt' and not id(n.ast) in in_loop and
             any(isinstance(a, ast.Call) and callee_attr(a) in ('fire', 'callback', 'errback') for a in node_asts(n))]
    run.floor('R03.4', 'observer notifications in connectionLost', len(notif), 1)
    for sn in snaps:
        for nn in notif:
            between = nn in g.reachable([sn], follow_exc=False) and any(rn in g.reachable([nn], follow_exc=False) for rn in resets)
            run.ob('R03.4', cl, nn.ast, 'no observer runs between the snapshot of outstanding commands and the reset of the queue', not between,
                   slot='notify-inside-snapshot',
                   message='connectionLost copies the outstanding commands, then runs %s, then resets the queue: a command submitted by '
                           'that observer is in neither and never fires' % src(nn.ast)[:60])
    # (a') the snapshot may be the queue list itself (outstanding = [..] + q if in_flight else q): then the queue is emptied by
    # re-binding, never in place - `del self.commands[:]` / .clear() would empty the snapshot too, and nothing is failed
    for sn in snaps:
        v = assign_to(sn.ast, [t for t in assigned_targets(sn.ast)][0]) if assigned_targets(sn.ast) else None
        alias_leg = v is not None and (dotted(v) == 'self.commands' or any(isinstance(x, ast.IfExp) and (dotted(x.body) == 'self.commands' or dotted(x.orelse) == 'self.commands')
                                                                            for x in ast.walk(v)))
        # ... which matters only if "no command in flight" can coincide with a non-empty queue: normally every reply that frees the
        # slot issues the next command at once (so an idle slot means an empty queue); a reply path that frees the slot without issuing
        # breaks that, and only then does the in-place emptying lose commands
        br = U(run, '_broadcast_response')
        gb = cfg_of(br)
        frees = [n for n in gb.real_nodes() if n.kind == 'stmt' and assign_to(n.ast, 'self.command') is not None and is_none(assign_to(n.ast, 'self.command'))]
        issues = gb.nodes_where(lambda n: any(is_call_to(a, 'self._maybe_issue_command') for a in node_asts(n)))
        idle_nonempty = any(gb.escapes(fr, lambda n: n in issues, exits=gb.normal_exits(), follow_exc=False) for fr in frees)
        if alias_leg and idle_nonempty:
            inplace = [n for n in g.real_nodes() if any((isinstance(a, ast.Delete) and any(isinstance(t, ast.Subscript) and dotted(t.value) == 'self.commands' for t in a.targets)) or
                                                        (isinstance(a, ast.Call) and dotted(a.func) in ('self.commands.clear',)) for a in node_asts(n))]
            for n in inplace:
                run.ob('R03.4', cl, n.ast, 'the queue is not emptied in place while the snapshot of outstanding commands may be that very list', False, slot='snapshot-aliased',
                       message='connectionLost empties self.commands in place (%s) although the snapshot %s is the same list when no command is in flight: the queued '
                               'commands are wiped before the errback loop and stay pending for ever' % (src(n.ast)[:40], src(v)[:60]))
    # (c) _when_disconnected is what _maybe_issue_command consults before writing: it is latched before any other
    # user code (the deprecated on_disconnect callbacks) runs, otherwise a command submitted there is written after the loss
    fires = [n for n in notif if any(is_call_to(a, 'self._when_disconnected.fire') for a in node_asts(n))]
    for nn in notif:
        if nn in fires:
            continue
        ok = any(g.dominates(fn, nn) for fn in fires)
        run.ob('R03.4', cl, nn.ast, 'the disconnected latch is set before any other observer runs', ok, slot='latch-first',
               message='connectionLost runs %s before _when_disconnected.fire(): a command submitted from that callback passes the '
                       '"already disconnected" test and is written to the dead transport' % src(nn.ast)[:50])
    # (b)
    k = 0
    for lp in loops:
        names = set(x.id for x in ast.walk(lp.target) if isinstance(x, ast.Name))
        for a, what in _partial_ops(lp.body, names):
            k += 1
            run.ob('R03.4', cl, a, 'nothing in the errback loop can raise on a runtime value', False, slot='partial-op-in-loop',
                   message='the errback loop %s: when that raises (e.g. a command without arguments) the remaining commands are never failed' % what)
        run.ob('R03.4', cl, lp, 'errback loop examined for partial operations', True, slot='loop-examined')


def _loss_tests(g):
    """tests that ask "has the connection been lost": label that means LOST."""
    out = []
    for t in g.live:
        if t.kind != 'test':
            continue
        a = t.ast
        if isinstance(a, ast.Call) and dotted(a.func) in ('self._when_disconnected.already_fired',
                                                           'self._when_disconnected.has_fired'):
            out.append((t, 'T'))
    return out


def r03_2(run):
    mi = U(run, '_maybe_issue_command')
    g = cfg_of(mi)
    sets = [n for n in g.real_nodes() if n.kind == 'stmt' and assign_to(n.ast, 'self.command') is not None
            and not is_none(assign_to(n.ast, 'self.command'))]
    run.floor('R03.2', 'in-flight slot assignments in _maybe_issue_command', len(sets), 1)

    def settles(n):
        for a in node_asts(n):
            if isinstance(a, ast.Call) and dotted(a.func) in WRITE_CALLS:
                return True
            if isinstance(a, ast.Assign):
                v = assign_to(a, 'self.command')
                if v is not None and (is_none(v) or const(v) in (False, 0, '')):
                    return True
        return False
    for sn in sets:
        esc = g.escapes(sn, settles, exits=g.exits)
        wit = None
        if esc:
            w = g.witness_path(sn, esc[0], avoid=settles)
            wit = fmt_path(g, [sn] + (w or []))
        run.ob('R03.2', mi, sn.ast, 'once the in-flight slot is taken, the command is written or the slot released on every path',
               not esc, slot='slot-typestate',
               message='_maybe_issue_command can return with self.command occupied but nothing written (the '
                       'already-disconnected leg): every later command then waits forever', path=wit)


def r03_3(run):
    mi = U(run, '_maybe_issue_command')
    qc = U(run, 'queue_command')
    g = cfg_of(mi)
    wn = g.nodes_where(lambda n: any(isinstance(a, ast.Call) and dotted(a.func) in WRITE_CALLS for a in node_asts(n)))
    run.floor('R03.3', 'write sites', len(wn), 1)
    lt = _loss_tests(g)
    ok_a = bool(wn) and all(any(g.edge_dominates(t, 'F' if lab == 'T' else 'T', w) for t, lab in lt) for w in wn)
    # alternative (b): queue_command refuses to queue after the loss
    gq = cfg_of(qc)
    ltq = _loss_tests(gq)
    apps = gq.nodes_where(lambda n: any(is_call_to(a, 'self.commands.append') for a in node_asts(n)))
    ok_b = bool(apps) and all(any(gq.edge_dominates(t, 'F' if lab == 'T' else 'T', a) for t, lab in ltq) for a in apps)
    run.ob('R03.3', mi, wn[0].ast if wn else mi.node, 'nothing is written after the loss (write dominated by a not-disconnected test)',
           ok_a or ok_b, slot='write-after-loss',
           message='the transport write is reachable after the disconnect observer has fired')
    # the failing leg hands the stored disconnect failure to the command's Deferred
    idx_d, idx_cmd, idx_cb, app, tup = c01.queue_layout(run)
    if ok_a:
        unp = c01.popped_unpack(run)
        for t, lab in lt:
            a = t.ast
            if dotted(a.func) == 'self._when_disconnected.already_fired':
                arg = a.args[0] if a.args else None
                ok = (isinstance(arg, ast.Name) and unp.get(idx_d) == arg.id) or (arg is not None and c01.popped_element(run, arg) == idx_d)
                run.ob('R03.3', mi, a, "post-loss submissions are failed through their own Deferred", ok, slot='already-fired-arg',
                       message='already_fired is given %s, not the popped command\'s Deferred' % src(arg))


def r03_5(run):
    """the in-flight slot is only ever released by the reply / the loss handler: _maybe_issue_command touches it only when it is
    empty (rule R01.4, shared) - clearing it on some other condition lets connectionLost forget the command that was in flight"""
    borrow(run, c01.r01_4, 'R03.5')


def r_so(run):
    so.check_so(run, 'R-SO')


def r03_6(run):
    """(a) connectionLost consumes no input: nothing it calls (transitively, inside the class) feeds the line machine, completes a
    reply or issues a command - a half-received final line is not a reply, and anything written from here goes to a dead transport;
    (b) a submission refused because of state that connectionLost itself changes fails with the disconnect error: a test in
    queue_command / _maybe_issue_command on an attribute connectionLost assigns, refusing with any other error, turns "submitted after
    the loss" into a different failure"""
    ci = proto(run)
    cl = U(run, 'connectionLost')
    forbidden = ('lineReceived', 'dataReceived', '_broadcast_response', '_maybe_issue_command')
    reach = reach_units(run.idx, [cl])
    hit = [u.name for u in reach if u is not cl and u.owner_cls is ci and u.name in forbidden]
    direct = [src(c)[:40] for c in calls_in(cl) if dotted(c.func) in ('self.fsm.process',) or (dotted(c.func) or '').split('.')[-1] in forbidden]
    buf = [src(a)[:30] for a in walk_unit(cl) if isinstance(a, ast.Attribute) and dotted(a) in ('self._buffer', 'self._LineOnlyReceiver__buffer')]
    run.ob('R03.6', cl, cl.node, 'connectionLost feeds nothing to the line machine and issues nothing', not hit and not direct and not buf, slot='loss-consumes-no-input',
           message='connectionLost reaches %s: an unterminated tail of the stream is treated as a complete reply (the in-flight command succeeds with truncated data) '
                   'and the next queued command is written to the dead transport' % sorted(set(hit + direct + buf)))
    lost_attrs = set(t for n in walk_unit(cl) if isinstance(n, (ast.Assign, ast.AugAssign)) for t in assigned_targets(n) if t.startswith('self.'))
    run.floor('R03.6', 'attributes connectionLost assigns', len(lost_attrs), 3)
    k = 0
    for u in (U(run, 'queue_command'), U(run, '_maybe_issue_command')):
        g = cfg_of(u)
        for n in g.real_nodes():
            fails = [a for a in node_asts(n) if isinstance(a, ast.Call) and (dotted(a.func) in ('defer.fail', 'fail') or callee_attr(a) == 'errback')]
            raises = [n.ast] if n.kind == 'stmt' and isinstance(n.ast, ast.Raise) else []
            for f in fails + raises:
                for t, lab in g.guarded_by(n, lambda t_: True):
                    attrs = set(dotted(x) for x in ast.walk(t.ast) if isinstance(x, ast.Attribute) and dotted(x) in lost_attrs)
                    if not attrs:
                        continue
                    k += 1
                    run.ob('R03.6', u, f, 'a refusal decided on state the connection loss changes uses the disconnect error', 'TorDisconnectError' in src(f),
                           slot='late-refusal-error:%s' % u.name,
                           message='%s refuses a command when %s with %s: connectionLost assigns %s, so every command submitted after the loss fails with that error '
                                   'instead of the disconnect error' % (u.short, src(t.ast)[:40], src(f)[:50], sorted(attrs)))
    run.ob('R03.6', cl, cl.node, 'late refusals examined', True)


def r03_7(run):
    """every place a submitted command can wait in is failed by the loss: queue_command parks the command's Deferred only in
    containers that connectionLost reads when it collects the outstanding commands.  A second waiting room (commands "held" during
    authentication, a retry list, ...) that connectionLost does not look at keeps its commands pending for ever - or hands them to
    the queue after the snapshot was taken"""
    qc = U(run, 'queue_command')
    cl = U(run, 'connectionLost')
    ci = proto(run)
    parks = []
    for c in calls_in(qc):
        d = dotted(c.func) or ''
        if d.startswith('self.') and d.split('.')[-1] in ('append', 'appendleft', 'insert', 'add', 'extend') and len(d.split('.')) == 3:
            parks.append((d.split('.')[1], c))
    for n in walk_unit(qc):
        if isinstance(n, ast.Assign):
            for t in n.targets:
                if isinstance(t, ast.Subscript) and (dotted(t.value) or '').startswith('self.') and (dotted(t.value) or '').count('.') == 1:
                    parks.append((dotted(t.value).split('.')[1], n))
    run.floor('R03.7', 'places queue_command parks a command in', len(parks), 1)
    read = set(x.attr for x in walk_unit(cl) if isinstance(x, ast.Attribute) and dotted(x.value) == 'self')
    for attr, node in parks:
        run.ob('R03.7', qc, node, 'connectionLost collects the commands waiting in self.%s' % attr, attr in read, slot='waiting-room:%s' % attr,
               message='queue_command parks commands in self.%s, which connectionLost never reads: a command waiting there when the connection is lost is '
                       'not failed (it stays pending, or joins the queue after the outstanding commands were collected)' % attr)


def r03_8(run):
    """submitted after the loss fails exactly once: the failing happens in _maybe_issue_command, right after the pop (the
    "already disconnected" leg).  So every call with an empty in-flight slot and a non-empty queue must reach the pop: the only
    tests that may leave the function before it are on the slot and on the queue.  Any other early way out (transport state,
    a flag) leaves commands queued after the loss in the queue for ever - connectionLost has already run"""
    mi = U(run, '_maybe_issue_command')
    g = cfg_of(mi)
    pnodes = g.nodes_where(lambda n: any(isinstance(a, ast.Call) and dotted(a.func) in ('self.commands.pop', 'self.commands.popleft') for a in node_asts(n)))
    if not pnodes:
        raise AnchorVanished('_maybe_issue_command: pop site')
    after = g.reachable(pnodes, follow_exc=False)
    k = 0
    for t in [t for t in g.live if t.kind == 'test' and t not in after and t.ast is not None]:
        txt = src(t.ast)
        on_slot_or_queue = 'self.command' in txt        # (self.command / self.commands)
        # does one leg of this test leave without reaching the pop?
        for lab in ('T', 'F'):
            succ = [s_ for l_, s_ in t.succ if l_ == lab]
            if not succ:
                continue
            r = g.reachable(succ, follow_exc=False)
            if any(p in r for p in pnodes):
                continue
            k += 1
            run.ob('R03.8', mi, t.ast, 'only the in-flight slot and the queue decide whether the next command is taken', on_slot_or_queue, slot='pop-skipped-by:%s' % txt[:30],
                   message='_maybe_issue_command returns without taking the next command when %s is %s: a command submitted after the loss (connectionLost has run, '
                           'nothing will call this again) stays queued and its Deferred never fires' % (txt[:60], lab == 'T'))
    run.floor('R03.8', 'ways out of _maybe_issue_command before the pop', k, 1)


def r03_9(run):
    """nothing is written to the transport after the loss: the only writer is _maybe_issue_command (whose write lies behind the
    not-disconnected test, R03.3).  A second writer - a QUIT sent "directly" from an error handler - also runs when that handler is
    the errback connectionLost has just fired (rule R01.1, shared)"""
    borrow(run, c01.r01_1, 'R03.9')


RULES = [
    ('R03.7', 'who-holds: every container queue_command parks a command in is read by connectionLost', r03_7),
    ('R03.1', 'post-condition of connectionLost on every path: one disconnect notification, in-flight and queued commands errbacked, slot cleared, queue emptied', r03_1),
    ('R03.4', 'order inside connectionLost: snapshot after the last observer notification; no partial operation (unpack of split, int()) inside the errback loop', r03_4),
    ('R03.5', 'in-flight slot discipline of _maybe_issue_command (R01.4 borrowed)', r03_5),
    ('R03.6', 'connectionLost consumes no input (call closure); refusals on state the loss changes use the disconnect error', r03_6),
    ('R03.8', 'who-may-skip: before the pop, _maybe_issue_command leaves only on the in-flight slot / empty queue tests', r03_8),
    ('R03.9', 'who-may-write: the control transport is written only in _maybe_issue_command (R01.1 borrowed)', r03_9),
    ('R03.2', 'typestate of the in-flight slot in _maybe_issue_command: taken => written or released on every path', r03_2),
    ('R03.3', 'dominance: the transport write lies behind the not-disconnected test', r03_3),
    ('R-SO', 'SingleObserver is guard-and-latch; every .fire receiver is a SingleObserver field', r_so),
]

from ..selftest import M  # noqa: E402
F = 'txtorcon/torcontrolprotocol.py'
MUTANTS = [
    M('no-issue-while-transport-closing', F, "        if self.command:\n            return\n\n        if len(self.commands):", "        if self.command:\n            return\n        if getattr(self.transport, 'disconnecting', False):\n            return\n\n        if len(self.commands):", ['R03.8']),
    M('second-waiting-room', F, ["        d = defer.Deferred()\n        self.commands.append((d, cmd, arg))\n        self._maybe_issue_command()\n        return d", "        self.commands = []\n        for d, cmd, cmd_arg in outstanding:"], ["        d = defer.Deferred()\n        if getattr(self, '_holding', False):\n            self._held.append((d, cmd, arg))\n            return d\n        self.commands.append((d, cmd, arg))\n        self._maybe_issue_command()\n        return d", "        self.commands = []\n        for d, cmd, cmd_arg in outstanding:"], ['R03.7']),
    M('queue-cleared-in-place-and-idle-slot-with-queue', F, ["        self.commands = []\n        for d, cmd, cmd_arg in outstanding:", "        self.defer = None\n        self._maybe_issue_command()\n"], ["        del self.commands[:]\n        for d, cmd, cmd_arg in outstanding:", "        self.defer = None\n        if resp != 'closing connection':\n            self._maybe_issue_command()\n"], ['R03.4']),
    M('loss-flushes-line-buffer', F, "        txtorlog.msg('connection terminated: ' + str(reason))\n", "        txtorlog.msg('connection terminated: ' + str(reason))\n        tail, self._buffer = self._buffer, b''\n        if tail[3:4] == b' ':\n            self.lineReceived(tail)\n", ['R03.6']),
    M('late-submission-plain-error', F, ["        d = defer.Deferred()\n        self.commands.append((d, cmd, arg))", "        self.commands = []\n        for d, cmd, cmd_arg in outstanding:"], ["        if self.commands is None:\n            return defer.fail(RuntimeError('not connected'))\n        d = defer.Deferred()\n        self.commands.append((d, cmd, arg))", "        self.commands = None\n        for d, cmd, cmd_arg in outstanding:"], ['R03.6']),
    M('issue-command-takes-argument', 'txtorcon/torcontrolprotocol.py', "    def _maybe_issue_command(self):\n", "    def _maybe_issue_command(self, force):\n", ['R-X']),
    M('errback-only-if-observed', F, "            if not d.called:\n                d.errback(", "            if not d.called and d.callbacks:\n                d.errback(", ['R03.1']),
    M('queue-not-emptied', F, "        self.defer = None\n        self.commands = []\n", "        self.defer = None\n", ['R03.1']),
    M('only-inflight-failed', F, "outstanding = [self.command] + self.commands if self.command else self.commands", "outstanding = [self.command] if self.command else []", ['R03.1']),
    M('inflight-forgotten', F, "outstanding = [self.command] + self.commands if self.command else self.commands", "outstanding = self.commands", ['R03.1']),
    M('slot-not-cleared', F, "        self.command = None\n        self.defer = None\n        self.commands = []", "        self.defer = None\n        self.commands = []", ['R03.1']),
    M('no-disconnect-fire', F, "        self._when_disconnected.fire(\n", "        (lambda x: x)(\n", ['R03.1']),
    M('slot-kept-on-loss-leg', F, "            if self._when_disconnected.already_fired(d):\n                self.command = None\n                return", "            if self._when_disconnected.already_fired(d):\n                return", ['R03.2']),
    M('write-before-loss-test', F, "            if self._when_disconnected.already_fired(d):\n                self.command = None\n                return\n", "", ['R03.3']),
    M('loop-unpacks-split', F, "            if not d.called:\n                d.errback(", "            if not d.called:\n                kw, _ = cmd.decode('ascii').split(' ', 1)\n                d.errback(", ['R03.4']),
    M('snapshot-before-notify', F, ["        txtorlog.msg('connection terminated: ' + str(reason))\n", "        outstanding = [self.command] + self.commands if self.command else self.commands\n        self.command = None"], ["        txtorlog.msg('connection terminated: ' + str(reason))\n        outstanding = [self.command] + self.commands if self.command else self.commands\n", "        self.command = None"], ['R03.4']),
    M('so-reentrant-request-lost', 'txtorcon/util.py', ["        if self._fired is not self._NotFired:\n            d.callback(self._fired)\n        else:\n            self._observers.append(d)", "        for d in self._observers:\n            d.callback(self._fired)"], ["        if self._observers is None:\n            d.callback(self._fired)\n        else:\n            self._observers.append(d)", "        for d in list(self._observers):\n            d.callback(self._fired)"], ['R-SO']),
    M('fire-after-on-disconnect', F, ["        txtorlog.msg('connection terminated: ' + str(reason))\n        self._when_disconnected.fire(\n            Failure(\n                TorDisconnectError(\n                    text=\"Tor connection terminated\",\n                    error=reason,\n                )\n            )\n        )\n", "        self.on_disconnect = None\n\n        outstanding"], ["        txtorlog.msg('connection terminated: ' + str(reason))\n", "        self.on_disconnect = None\n        self._when_disconnected.fire(Failure(TorDisconnectError(text=\"Tor connection terminated\", error=reason)))\n\n        outstanding"], ['R03.4']),
    M('so-no-latch', 'txtorcon/util.py', "            d.callback(self._fired)\n        self._observers = None\n", "            d.callback(self._fired)\n", ['R-SO']),
    M('so-no-guard', 'txtorcon/util.py', "        if self._observers is None:\n            return  # raise RuntimeError(\"already fired\") ?\n", "", ['R-SO']),
    M('so-when-fired-registers-always', 'txtorcon/util.py', "            d.callback(self._fired)\n        else:\n            self._observers.append(d)", "            d.callback(self._fired)\n        if self._observers is not None:\n            self._observers.append(d)", ['R-SO']),
]
TWINS = [
    M('so-copy-iteration-alone', 'txtorcon/util.py', "        for d in self._observers:\n            d.callback(self._fired)", "        for d in list(self._observers):\n            d.callback(self._fired)"),
    M('so-slot-test-alone', 'txtorcon/util.py', "        if self._fired is not self._NotFired:\n            d.callback(self._fired)\n        else:\n            self._observers.append(d)", "        if self._observers is None:\n            d.callback(self._fired)\n        else:\n            self._observers.append(d)"),
    M('loop-keyword-safe', F, "            if not d.called:\n                d.errback(", "            if not d.called:\n                kw = cmd.decode('ascii').split(' ', 1)[0]\n                d.errback("),
    M('deque-queue', F, ["from warnings import warn\n", "        self.commands = []       # queued commands", "            self.command = self.commands.pop(0)", "        outstanding = [self.command] + self.commands if self.command else self.commands", "        self.defer = None\n        self.commands = []\n"], ["from warnings import warn\nfrom collections import deque\n", "        self.commands = deque()  # queued commands", "            self.command = self.commands.popleft()", "        outstanding = [self.command] + list(self.commands) if self.command else list(self.commands)", "        self.defer = None\n        self.commands = deque()\n"]),
    M('drain-in-loop', F, "        outstanding = [self.command] + self.commands if self.command else self.commands\n        self.command = None\n        self.defer = None\n        self.commands = []\n", "        outstanding = [self.command] + self.commands if self.command else list(self.commands)\n        self.command = None\n        self.defer = None\n        del self.commands[:]\n"),
    M('clear-queue', F, "        self.defer = None\n        self.commands = []\n", "        self.defer = None\n        del self.commands[:]\n"),
    M('outstanding-list', F, "outstanding = [self.command] + self.commands if self.command else self.commands", "outstanding = [self.command] + list(self.commands) if self.command else list(self.commands)"),
]
