"""C02 - 650 events reach exactly their listeners and never touch replies."""
import ast

from .common import *  # noqa
from . import c01
from .c01 import U, proto, MOD

SNAPSHOT_CALLS = ('list', 'tuple', 'sorted', 'copy.copy', 'frozenset', 'set')


def r02_1(run):
    c01.r01_5(run, rid='R02.1', classes=('6xx',))


code_hook = c01.code_hook


def r02_2(run):
    RID = 'R02.2'
    ci = proto(run)
    sites = 0
    reps = [c for c in c01.code_reps(run) if c01.code_class(c) == '6xx']
    for u in class_units(run.idx, ci):
        cbcalls = [x for x in calls_in(u) if isinstance(x.func, ast.Subscript) and dotted(x.func.value) == 'self.command']
        if not cbcalls:
            continue
        sites += len(cbcalls)
        g = cfg_of(u)
        bad = {}
        for c in reps:
            for p in g.paths(eval_hook=code_hook(c)):
                run.paths_enumerated += 1
                for t, n, a in path_effects(p, c01.acc_classify):
                    if t == 'linecb':
                        bad.setdefault(id(a), (a, c, p))
        for call in cbcalls:
            hit = bad.get(id(call))
            if hit is not None and any(n.kind == 'test' and isinstance(n.ast, ast.Call) and (dotted(n.ast.func) or '').startswith('self.')
                                       for n, _ in hit[2].steps):
                run.ob(RID, u, call, 'reachability decided', None, message='the path to the per-line callback depends on %s, which the checker cannot see through' %
                       [src(n.ast) for n, _ in hit[2].steps if n.kind == 'test' and isinstance(n.ast, ast.Call)][:2])
                continue
            run.ob('R02.2', u, call, 'per-line callback unreachable while the current reply is a 6xx event', hit is None,
                   slot='linecb@%s' % u.short,
                   message='%s hands a line of a 650 event to the in-flight command\'s per-line callback '
                           '(event absorbed into a reply; listeners get nothing)' % u.short,
                   path=('code=%s %s' % (hit[1], hit[2].describe())) if hit else None)
    run.floor('R02.2', 'calls of self.command[2](...)', sites, 4)


def r02_7(run):
    c01.r01_11(run, rid='R02.7')


def r02_8(run):
    """Removing a listener is by equality: two accesses of the same bound method are equal but not
    identical, so an identity test (`is` / `is not`) never removes a method listener."""
    ev = _event_cls(run)
    ci = proto(run)
    k = 0
    for u in [run.idx.find_method(ev, 'unlisten'), run.idx.find_method(ci, 'remove_event_listener')]:
        if u is None:
            raise AnchorVanished('listener removal function')
        params = set(u.params[1:])
        removes = [c for c in calls_in(u) if callee_attr(c) in ('remove', 'discard', 'unlisten') and c.args and dotted(c.args[0]) in params]
        cmps = [n for n in walk_unit(u) if isinstance(n, ast.Compare) and
                any(dotted(x) in params for x in [n.left] + list(n.comparators))]
        for n in cmps:
            k += 1
            ident = any(isinstance(op, (ast.Is, ast.IsNot)) for op in n.ops) and not any(is_none(x) for x in [n.left] + list(n.comparators))
            run.ob('R02.8', u, n, 'listeners are compared by equality', not ident, slot='identity-compare@%s' % u.short,
                   message='%s compares the callback with `%s`: a bound-method listener is a fresh object on every access, '
                           'so it is never removed and keeps receiving events' % (u.short, src(n)))
        k += len(removes)
        run.ob('R02.8', u, u.node, 'the removal function removes the given callback', bool(removes) or bool(cmps), slot='removes@%s' % u.short,
               message='%s neither calls remove(<callback>) nor filters by comparison with it' % u.short)
    run.floor('R02.8', 'removal sites', k, 2)


def r02_9(run):
    """every received line - an empty data-block line included - is fed to the line machine exactly once (rule R01.7, shared): a
    650+ event's payload keeps its blank lines"""
    borrow(run, c01.r01_7, 'R02.9')


def r02_10(run):
    """every line of an event reaches the text that is dispatched, exactly once, whatever is subscribed while it arrives (rule R01.8,
    shared): who receives an event is decided when its last line arrives, so no line may be skipped earlier"""
    borrow(run, c01.r01_8, 'R02.10')


def r02_12(run):
    """a command queued from an event listener (SETEVENTS after a listener removed itself, anything a listener asks for) goes out
    like any other: queue_command attempts the issue on every path, whatever state the line machine is in (rule R01.3, shared) -
    after an event nothing else would issue it, the end-of-reply handling returns early for 6xx"""
    borrow(run, c01.r01_3, 'R02.12')


def r02_11(run):
    """delivery is the last thing _handle_notify does with the listener table: a listener may remove the last listener of its
    event (itself) during delivery, which deletes self.events[name] - any use of that entry after got_update() raises KeyError out
    of dataReceived, losing the rest of the segment and leaving the reply code at 650"""
    hn = U(run, '_handle_notify')
    g = cfg_of(hn)
    deliver = g.nodes_where(lambda n: any(isinstance(a, ast.Call) and callee_attr(a) == 'got_update' for a in node_asts(n)))
    run.floor('R02.11', 'deliveries in _handle_notify', len(deliver), 1)
    for d in deliver:
        after = g.reachable([s_ for lab, s_ in d.succ if lab != 'exc'], follow_exc=False)
        uses = [n for n in after if n is not d and n.kind in ('stmt', 'test', 'iter') and
                any(isinstance(a, ast.Subscript) and dotted(a.value) == 'self.events' and isinstance(a.ctx, ast.Load) for a in node_asts(n))]
        # a use is fine only behind a membership test that is itself evaluated after the delivery
        bad = []
        for n in uses:
            ok = False
            for t, lab in g.guarded_by(n, lambda t_: isinstance(t_, ast.Compare) and len(t_.ops) == 1 and isinstance(t_.ops[0], ast.In) and dotted(t_.comparators[0]) == 'self.events'):
                if lab == 'T' and t in after:
                    ok = True
            if not ok:
                bad.append(n)
        run.ob('R02.11', hn, d.ast, 'the listener table entry is not used again after the delivery', not bad, slot='entry-after-delivery',
               message='_handle_notify reads self.events[...] again after got_update() (%s): a listener that removes the last listener of that event during delivery '
                       'has deleted the entry, the KeyError escapes dataReceived and the following events of the segment are lost' % [src(n.ast)[:50] for n in bad][:2])


def _event_cls(run):
    return run.idx.cls('Event', MOD)


def r02_3(run):
    ev = _event_cls(run)
    gu = run.idx.find_method(ev, 'got_update')
    if gu is None:
        raise AnchorVanished('Event.got_update')
    inplace = []
    rebinding = True
    for nm in ('listen', 'unlisten'):
        m = run.idx.find_method(ev, nm)
        if m is None:
            raise AnchorVanished('Event.' + nm)
        muts = [c for c in calls_in(m) if (dotted(c.func) or '').startswith('self.callbacks.') and callee_attr(c) in MUTATORS_ALL]
        if muts:
            inplace.append(nm)
            rebinding = False
        elif not writes_of(m, 'self.callbacks'):
            raise Undecided('Event.%s neither mutates nor rebinds self.callbacks' % nm)
    loops = [n for n in walk_unit(gu) if isinstance(n, (ast.For, ast.comprehension))]
    defs = local_defs(gu)
    k = 0
    for lp in loops:
        it = c01._resolve_name(defs, lp.iter)
        if not mentions(it, 'self.callbacks'):
            continue
        k += 1
        snap = False
        if isinstance(it, ast.Call) and (dotted(it.func) in SNAPSHOT_CALLS or callee_attr(it) == 'copy'):
            snap = True
        elif isinstance(it, ast.Subscript) and isinstance(it.slice, ast.Slice):
            snap = True
        elif isinstance(it, (ast.ListComp, ast.List, ast.Tuple, ast.BinOp)):
            snap = True
        ok = snap or rebinding
        run.ob('R02.3', gu, lp, 'event fan-out iterates a snapshot of the listener list', ok, slot='fanout-iter',
               message='Event.got_update iterates %s while %s mutate that list in place: a listener that '
                       'unsubscribes during delivery makes the next listener miss the event' % (src(lp.iter), '/'.join(inplace)))
    run.floor('R02.3', 'fan-out loops over self.callbacks', k, 1)


MUTATORS_ALL = frozenset(('append', 'remove', 'pop', 'insert', 'extend', 'clear', 'discard', 'add', 'sort', 'reverse'))


def r02_4(run):
    ev = _event_cls(run)
    gu = run.idx.find_method(ev, 'got_update')
    g0 = cfg_of(gu)
    for it in [n for n in g0.live if n.kind == 'iter']:
        tgt = it.ast.target.id if isinstance(it.ast.target, ast.Name) else None
        calls = g0.nodes_where(lambda n: any(isinstance(a, ast.Call) and isinstance(a.func, ast.Name) and a.func.id == tgt for a in node_asts(n)))
        body = [s_ for lab, s_ in it.succ if lab == 'body']
        r = g0.reachable(body, avoid=lambda n: n in calls)
        skipped = it in r
        run.ob('R02.4', gu, it.ast, 'every listener in the snapshot is called (no path through the loop body skips the call)', bool(calls) and not skipped, slot='call-every-listener',
               message='Event.got_update can skip a listener that was registered when the event arrived (e.g. one that another listener just removed)')
    k = 0
    for lp in [n for n in walk_unit(gu) if isinstance(n, ast.For)]:
        tgt = lp.target.id if isinstance(lp.target, ast.Name) else None
        for st in ast.walk(lp):
            if not (isinstance(st, ast.Call) and isinstance(st.func, ast.Name) and st.func.id == tgt):
                continue
            k += 1
            # enclosing try inside the loop
            tr = None
            for t in ast.walk(lp):
                if isinstance(t, ast.Try) and any(x is st for b in t.body for x in ast.walk(b)):
                    tr = t
            ok = False
            why = 'the listener call is not inside a try in the loop'
            if tr is not None:
                for h in tr.handlers:
                    ty = dotted(h.type) if h.type is not None else None
                    if h.type is None or ty in ('Exception', 'BaseException'):
                        esc = [x for b in h.body for x in walk_local(b, descend_root=False)
                               if isinstance(x, (ast.Raise, ast.Break, ast.Return))]
                        ok = not esc
                        why = 'the handler leaves the loop (%s)' % (src(esc[0]) if esc else '')
                        break
                else:
                    why = 'no handler catches Exception'
            run.ob('R02.4', gu, st, 'a raising listener is isolated and the loop continues', ok, slot='isolation',
                   message='Event.got_update: %s - one failing listener stops delivery to the rest' % why)
    run.floor('R02.4', 'listener calls in got_update', k, 1)


def _setevents_calls(run):
    out = []
    for u in class_units(run.idx, proto(run)):
        for c in calls_in(u):
            if callee_attr(c) == 'queue_command' and c.args:
                sh = shape(c.args[0], expr_defs_for_shape(local_defs(u)))
                if shape_prefix(sh).startswith('SETEVENTS'):
                    out.append((u, c, sh))
    return out


def _is_events_names(e):
    """' '.join(self.events.keys()) / join(self.events) / join(list|sorted(self.events[.keys()]))"""
    if not (isinstance(e, ast.Call) and callee_attr(e) == 'join' and const(receiver(e)) == ' ' and len(e.args) == 1):
        return False
    a = e.args[0]
    while isinstance(a, ast.Call) and dotted(a.func) in ('list', 'sorted', 'tuple') and len(a.args) == 1:
        a = a.args[0]
    if isinstance(a, ast.Call) and dotted(a.func) == 'self.events.keys' and not a.args:
        return True
    return dotted(a) == 'self.events'


def r02_5(run):
    ci = proto(run)
    se = _setevents_calls(run)
    run.floor('R02.5', 'SETEVENTS senders', len(se), 2)
    for u, c, sh in se:
        holes = [p for p in sh if isinstance(p, Hole)]
        ok = shape_prefix(sh) == 'SETEVENTS ' and len(holes) == 1 and len(sh) == 2 and _is_events_names(holes[0].node)
        run.ob('R02.5', u, c, 'SETEVENTS lists exactly the names in self.events', ok, slot='names@%s' % u.short,
               message='SETEVENTS argument is %s, not the names that currently have listeners' % shape_text(sh))
    stores, dels = [], []
    for u in class_units(run.idx, ci):
        top = u
        while top.parent is not None:
            top = top.parent
        for n in walk_unit(u):
            if isinstance(n, ast.Assign):
                for t in n.targets:
                    if isinstance(t, ast.Subscript) and dotted(t.value) == 'self.events':
                        stores.append((u, n))
                        run.ob('R02.5', u, n, 'subscription table stored only in add_event_listener', top.name == 'add_event_listener',
                               slot='store@%s' % u.short, message='self.events[...] stored in %s' % u.short)
                    if dotted(t) == 'self.events':
                        run.ob('R02.5', u, n, 'subscription table rebound only in __init__', top.name == '__init__',
                               slot='rebind@%s' % u.short, message='self.events rebound in %s' % u.short)
            elif isinstance(n, ast.Delete):
                for t in n.targets:
                    if isinstance(t, ast.Subscript) and dotted(t.value) == 'self.events':
                        dels.append((u, n))
                        run.ob('R02.5', u, n, 'subscription removed only in remove_event_listener', top.name == 'remove_event_listener',
                               slot='del@%s' % u.short, message='del self.events[...] in %s' % u.short)
            elif isinstance(n, ast.Call) and (dotted(n.func) or '').startswith('self.events.') and callee_attr(n) in (
                    'pop', 'clear', 'update', 'setdefault', 'popitem'):
                run.ob('R02.5', u, n, 'no other mutation of the subscription table', False, slot='%s@%s' % (callee_attr(n), u.short),
                       message='self.events mutated with %s in %s' % (callee_attr(n), u.short))
    run.floor('R02.5', 'self.events store/delete sites', min(len(stores), 1) + min(len(dels), 1), 2)

    def is_setevents(n):
        return any(a is c for (_, c, _) in se for a in node_asts(n))
    # add: store under "name not in events", followed by SETEVENTS; listen on every normal path
    add = U(run, 'add_event_listener')
    g = cfg_of(add)
    for u, st in stores:
        if u is not add:
            continue
        for sn in g.nodes_containing(st):
            guards = g.guarded_by(sn, lambda t: isinstance(t, ast.Compare) and len(t.ops) == 1 and
                                  isinstance(t.ops[0], (ast.NotIn, ast.In)) and dotted(t.comparators[0]) == 'self.events')
            ok = any((isinstance(t.ast.ops[0], ast.NotIn) and lab == 'T') or (isinstance(t.ast.ops[0], ast.In) and lab == 'F')
                     for t, lab in guards)
            run.ob('R02.5', add, st, 'first-listener store guarded by "name not in self.events"', ok, slot='add-guard',
                   message='self.events store not guarded by a membership test')
            esc = g.escapes(sn, is_setevents, exits=g.normal_exits())
            run.ob('R02.5', add, st, 'new subscription is followed by SETEVENTS on every path', not esc, slot='add-setevents',
                   message='a path from the store to return sends no SETEVENTS (Tor never told about the new name)')
    listen_nodes = g.nodes_where(lambda n: any(is_method_call(a, 'listen') for a in node_asts(n)))
    esc = g.reachable([g.entry], avoid=lambda n: n in listen_nodes)
    ok = not any(e in esc for e in g.normal_exits())
    run.ob('R02.5', add, add.node, 'the callback is registered on every normal path of add_event_listener', ok, slot='add-listen',
           message='add_event_listener can return without evt.listen(callback)')
    rem = U(run, 'remove_event_listener')
    g = cfg_of(rem)
    unl = g.nodes_where(lambda n: any(is_method_call(a, 'unlisten') for a in node_asts(n)))
    for u, st in dels:
        if u is not rem:
            continue
        for dn in g.nodes_containing(st):
            ok = any(g.dominates(x, dn) for x in unl)
            run.ob('R02.5', rem, st, 'unlisten precedes dropping the subscription', ok, slot='rem-order',
                   message='del self.events[...] not dominated by evt.unlisten(cb)')
            guards = g.guarded_by(dn, lambda t: mentions(t, 'evt.callbacks') or 'callbacks' in src(t))
            run.ob('R02.5', rem, st, 'subscription dropped only when no callbacks are left', bool(guards), slot='rem-guard',
                   message='del self.events[...] not guarded by a test on the remaining callbacks')
            esc = g.escapes(dn, is_setevents, exits=g.normal_exits())
            run.ob('R02.5', rem, st, 'dropping a subscription is followed by SETEVENTS on every path', not esc, slot='rem-setevents',
                   message='a path from the delete to return sends no SETEVENTS')


def r02_6(run):
    hn = U(run, '_handle_notify')
    g = cfg_of(hn)
    k = 0
    for c in calls_in(hn):
        if callee_attr(c) != 'got_update':
            continue
        k += 1
        r = receiver(c)
        ok = isinstance(r, ast.Subscript) and dotted(r.value) == 'self.events'
        run.ob('R02.6', hn, c, 'events dispatched only through self.events[name]', ok, slot='dispatch-recv',
               message='got_update called on %s' % src(r))
        if ok:
            key = src(r.slice)
            for n in g.nodes_containing(c):
                guards = g.guarded_by(n, lambda t: isinstance(t, ast.Compare) and len(t.ops) == 1 and isinstance(t.ops[0], (ast.In, ast.NotIn))
                                      and dotted(t.comparators[0]) == 'self.events' and src(t.left) == key)
                run.ob('R02.6', hn, c, 'dispatch guarded by "name in self.events"', any((lab == 'T') == isinstance(t.ast.ops[0], ast.In) for t, lab in guards), slot='dispatch-guard',
                       message='got_update reachable for names without listeners')
    # exact payload: the text after the name and its one separator; whitespace-splitting collapses blank runs / blank first lines
    rest = hn.params[2] if len(hn.params) > 2 else None
    defs = local_defs(hn)
    for c in calls_in(hn):
        if callee_attr(c) != 'got_update' or not c.args:
            continue
        a = c01._resolve_name(defs, c.args[0])
        r = receiver(c)
        key = src(r.slice) if isinstance(r, ast.Subscript) else None
        exact = isinstance(a, ast.Subscript) and dotted(a.value) == rest and isinstance(a.slice, ast.Slice) and a.slice.upper is None \
            and a.slice.lower is not None and src(a.slice.lower).replace(' ', '') in ('len(%s)+1' % key, '1+len(%s)' % key)
        roots = [a] + [d[1] for x in ast.walk(a) if isinstance(x, ast.Name) for d in defs.get(x.id, []) if d[0] in ('expr', 'elem') and isinstance(d[1], ast.AST)]
        ws_split = any(isinstance(x, ast.Call) and callee_attr(x) in ('split', 'rsplit') and (not x.args or is_none(x.args[0])) for y in roots for x in ast.walk(y))
        stripped = any(isinstance(x, ast.Call) and callee_attr(x) in ('strip', 'lstrip', 'rstrip') for y in roots for x in ast.walk(y))
        verdict = True if exact else (False if (ws_split or stripped) else None)
        run.ob('R02.6', hn, c, 'the listener receives exactly the text after "<NAME> "', verdict, slot='payload-exact',
               message='the payload handed to listeners is %s%s' % (src(a)[:60], ': derived by whitespace splitting / stripping, so leading blanks or a blank first data line are lost'
                                                                 if verdict is False else ' (shape not recognised)'))
    run.floor('R02.6', 'got_update calls in _handle_notify', k, 1)
    # nobody else calls got_update
    for u in run.idx.all_units():
        if u is hn:
            continue
        for c in calls_in(u):
            if callee_attr(c) == 'got_update':
                run.ob('R02.6', u, c, 'got_update called only from _handle_notify', False, slot='got_update@%s' % u.short,
                       message='%s delivers an event outside _handle_notify' % u.short)


RULES = [
    ('R02.1', '6xx leg of _broadcast_response: one _handle_notify, in-flight slot untouched, no fire, no issue (path enumeration over code classes)', r02_1),
    ('R02.2', 'reachability: per-line callback of the in-flight command unreachable while the current reply code is 6xx', r02_2),
    ('R02.3', 'fan-out iterates a snapshot (or listen/unlisten are copy-on-write)', r02_3),
    ('R02.4', 'listener call isolated by try/except Exception that stays in the loop', r02_4),
    ('R02.5', 'SETEVENTS argument = names in self.events; table stored/deleted only under the first/last-listener guards and followed by SETEVENTS', r02_5),
    ('R02.7', 'who-may-write: the event/reply line accumulator is written only by the line machine (issuing a command cannot wipe a half-received event)', r02_7),
    ('R02.8', 'listener removal removes the given callback by equality (no identity test on callbacks)', r02_8),
    ('R02.9', 'framing: every received line reaches the machine once (R01.7 borrowed)', r02_9),
    ('R02.10', 'every line of an event reaches the dispatched text exactly once, independent of the subscriptions at that moment (R01.8 borrowed)', r02_10),
    ('R02.12', 'a command queued while an event is being received or delivered is still issued (R01.3 borrowed)', r02_12),
    ('R02.11', 'no use of self.events[name] after the delivery in _handle_notify (the entry may be gone)', r02_11),
    ('R02.6', 'events dispatched only via self.events[name] under membership guard, only from _handle_notify', r02_6),
]

from ..selftest import M  # noqa: E402
F = 'txtorcon/torcontrolprotocol.py'
MUTANTS = [
    M('event-lines-dropped-while-unsubscribed', F, "        else:\n            self.response += (line[4:] + '\\n')", "        elif not (self.code >= 600 and not self.events):\n            self.response += (line[4:] + '\\n')", ['R02.10/R01.8']),
    M('entry-read-after-delivery', F, "            self.events[name].got_update(rest[len(name) + 1:])\n            return", "            self.events[name].got_update(rest[len(name) + 1:])\n            txtorlog.msg(len(self.events[name].callbacks))\n            return", ['R02.11']),
    M('ok-cut-before-dispatch', F, "        self.response = ''\n        if self.code is None:\n            raise RuntimeError(\"No code set yet in broadcast response.\")", "        self.response = ''\n        if resp.endswith('\\nOK'):\n            resp = resp[:-3]\n        if self.code is None:\n            raise RuntimeError(\"No code set yet in broadcast response.\")", ['R02.1']),
    M('code-600-refused', F, "        elif self.code >= 600 and self.code < 700:", "        elif self.code > 600 and self.code < 700:", ['R02.1']),
    M('payload-by-whitespace-split', F, "self.events[name].got_update(rest[len(name) + 1:])", "self.events[name].got_update(rest.split(None, 1)[1] if len(rest.split(None, 1)) > 1 else '')", ['R02.6']),
    M('event-falls-through', F, "            self._handle_notify(self.code, resp)\n            self.code = None\n            return\n", "            self._handle_notify(self.code, resp)\n", ['R02.1']),
    M('event-fires-defer', F, "            self._handle_notify(self.code, resp)\n", "            self._handle_notify(self.code, resp)\n            if self.defer:\n                self.defer.callback(resp)\n", ['R02.1']),
    M('event-code-not-reset', F, "            self._handle_notify(self.code, resp)\n            self.code = None\n", "            self._handle_notify(self.code, resp)\n", ['R02.1']),
    M('linecb-unguarded', F, "        return self.code >= 200 and self.code < 300 and \\\n            self.command and self.command[2] is not None", "        return self.command and self.command[2] is not None", ['R02.2']),
    M('linecb-guard-700', F, "        return self.code >= 200 and self.code < 300 and \\\n            self.command", "        return self.code >= 200 and self.code < 700 and \\\n            self.command", ['R02.2']),
    M('issue-wipes-accumulator', F, "            self.defer = d\n", "            self.defer = d\n            self.response = ''\n", ['R02.7']),
    M('unlisten-by-identity', F, "        self.callbacks.remove(cb)", "        self.callbacks = [c for c in self.callbacks if c is not cb]", ['R02.8']),
    M('live-list', F, "for cb in list(self.callbacks):", "for cb in self.callbacks:", ['R02.3']),
    M('handler-reraises', F, "                log.err(Failure())\n", "                log.err(Failure())\n                raise\n", ['R02.4']),
    M('narrow-except', F, "            except Exception as e:\n                log.err(Failure())", "            except ValueError as e:\n                log.err(Failure())", ['R02.4']),
    M('setevents-valid', F, "            return self.queue_command('SETEVENTS %s' % ' '.join(self.events.keys()))", "            return self.queue_command('SETEVENTS %s' % ' '.join(self.valid_events.keys()))", ['R02.5']),
    M('no-setevents-on-remove', F, "            del self.events[evt.name]\n            return self.queue_command('SETEVENTS %s' % ' '.join(self.events.keys()))", "            del self.events[evt.name]\n            return defer.succeed(None)", ['R02.5']),
    M('listen-only-first', F, "            d = defer.succeed(None)\n        evt.listen(callback)\n", "            d = defer.succeed(None)\n            return d\n        evt.listen(callback)\n", ['R02.5']),
    M('del-before-unlisten', F, "        evt.unlisten(cb)\n        if len(evt.callbacks) == 0:", "        if len(evt.callbacks) == 1:", ['R02.5']),
    M('dispatch-unguarded', F, "        if name in self.events:\n            self.events[name].got_update", "        if name in self.valid_events:\n            self.valid_events[name].got_update", ['R02.6']),
]
TWINS = [
    M('notify-early-return-named-payload', F, "        if name in self.events:\n            self.events[name].got_update(rest[len(name) + 1:])\n            return\n", "        if name not in self.events:\n            return\n        payload = rest[len(name) + 1:]\n        self.events[name].got_update(payload)\n"),
    M('unlisten-by-equality-filter', F, "        self.callbacks.remove(cb)", "        self.callbacks = [c for c in self.callbacks if c != cb]"),
    M('lost-resets-accumulator', F, "        self.command = None\n        self.defer = None\n        self.commands = []\n", "        self.command = None\n        self.defer = None\n        self.response = ''\n        self.commands = []\n"),
    M('tuple-snapshot', F, "for cb in list(self.callbacks):", "for cb in tuple(self.callbacks):"),
    M('slice-snapshot', F, "for cb in list(self.callbacks):", "for cb in self.callbacks[:]:"),
    M('join-list', F, "            return self.queue_command('SETEVENTS %s' % ' '.join(self.events.keys()))", "            return self.queue_command('SETEVENTS %s' % ' '.join(list(self.events)))"),
    M('chained-2xx', F, "        return self.code >= 200 and self.code < 300 and \\\n            self.command", "        return 200 <= self.code < 300 and \\\n            self.command"),
]
