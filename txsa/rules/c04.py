"""C04 - authentication order, method preference, SAFECOOKIE proof discipline."""
import ast

from .common import *  # noqa
from . import c01
from .c01 import U, proto

PREAUTH = ('PROTOCOLINFO', 'AUTHCHALLENGE', 'AUTHENTICATE')
KEY_S2C = b'Tor safe cookie authentication server-to-controller hash'
KEY_C2S = b'Tor safe cookie authentication controller-to-server hash'
METHODS = ('SAFECOOKIE', 'COOKIE', 'HASHEDPASSWORD', 'NULL')


def cmd_prefix(u, call):
    """first word of the command a queue_command call sends ('' if not constant)."""
    if not call.args:
        return ''
    sh = shape(call.args[0], expr_defs_for_shape(local_defs(u)))
    return shape_prefix(sh).split(' ')[0]


def auth_units(run):
    return reach_units(run.idx, [U(run, 'connectionMade')], cut=('_bootstrap', 'queue_command', '_maybe_issue_command'))


# R04.1 ------------------------------------------------------------------
def r04_1(run):
    units = auth_units(run)
    names = set(u.name for u in units)
    for need in ('_do_authenticate', '_auth_failed', 'protocolinfo'):
        if need not in names:
            run.ob('R04.1', U(run, 'connectionMade'), None, 'auth call graph reaches %s' % need, False, slot='reach:' + need,
                   message='connectionMade no longer reaches %s' % need)
    n = 0
    for u in units:
        if u.name in ('_bootstrap', 'queue_command', '_maybe_issue_command'):
            continue
        for c in calls_in(u):
            if callee_attr(c) != 'queue_command':
                continue
            n += 1
            w = cmd_prefix(u, c)
            run.ob('R04.1', u, c, 'pre-authentication command vocabulary', w in PREAUTH, slot='vocab@%s:%s' % (u.short, w or src(c.args[0])[:30]),
                   message='%s sends %r before authentication completed (only PROTOCOLINFO/AUTHCHALLENGE/AUTHENTICATE allowed)'
                   % (u.short, w or src(c.args[0])))
            # other protocol API calls that send commands
        for c in calls_in(u):
            d = dotted(c.func) or ''
            if d.startswith('self.') and d.split('.')[-1] in ('get_info', 'get_info_raw', 'get_conf', 'set_conf', 'signal',
                                                               'add_event_listener', 'get_info_single', 'get_conf_single',
                                                               'get_info_incremental', 'quit'):
                run.ob('R04.1', u, c, 'no other command API used before authentication', False, slot='api@%s:%s' % (u.short, d),
                       message='%s calls %s before authentication completed' % (u.short, d))
    run.floor('R04.1', 'queue_command sites in the auth call graph', n, 4)
    # _bootstrap attached only to chains that originate in AUTHENTICATE
    sa = U(run, '_safecookie_authchallenge')
    sa_ok = True
    g = cfg_of(sa)
    for p in g.paths():
        if p.exit == 'raise':
            continue
        ret = [n_.ast for n_, _ in p.steps if n_.kind == 'stmt' and isinstance(n_.ast, ast.Return)]
        v = ret[-1].value if ret else None
        if not (isinstance(v, ast.Call) and callee_attr(v) == 'queue_command' and cmd_prefix(sa, v) == 'AUTHENTICATE'):
            sa_ok = False
    k = 0
    for u in units + [U(run, '_do_password_authentication')]:
        defs = local_defs(u)
        seen_cb = {}
        stmts = sorted([c for c in calls_in(u) if callee_attr(c) in ('addCallback', 'addCallbacks', 'addBoth')],
                       key=lambda c: (c.lineno, c.col_offset))
        for c in stmts:
            if not c.args:
                continue
            cbname = dotted(c.args[0])
            r = dotted(receiver(c))
            if cbname == 'self._safecookie_authchallenge':
                seen_cb.setdefault(r, []).append('safecookie')
            if cbname != 'self._bootstrap':
                continue
            k += 1
            ok = False
            why = 'receiver %s has no single reaching definition' % r
            gu = cfg_of(u)
            vals = []
            for nn in gu.nodes_containing(c):
                for rd in reaching_defs(gu, nn, r):
                    vals.append(def_value(rd, r))
            # the safecookie step must be attached to the same Deferred earlier on this chain
            sc_nodes = [x for x in stmts if x.args and dotted(x.args[0]) == 'self._safecookie_authchallenge' and dotted(receiver(x)) == r]
            has_sc = False
            for nn in gu.nodes_containing(c):
                for x in sc_nodes:
                    if any(gu.dominates(m, nn) for m in gu.nodes_containing(x)):
                        has_sc = True
            if len(vals) == 1 and isinstance(vals[0], ast.Call):
                call = vals[0]
                cd = dotted(call.func)
                if cd == 'self.authenticate':
                    ok = True
                elif callee_attr(call) == 'queue_command':
                    w = cmd_prefix(u, call)
                    if w == 'AUTHENTICATE':
                        ok = True
                    elif w == 'AUTHCHALLENGE':
                        ok = has_sc and sa_ok
                        why = 'AUTHCHALLENGE chain reaches _bootstrap without the verified AUTHENTICATE step'
                    else:
                        why = 'chain starts with %r' % w
                else:
                    why = 'chain starts with %s' % src(call)[:50]
            run.ob('R04.1', u, c, '_bootstrap attached only behind an AUTHENTICATE command', ok, slot='bootstrap-origin@%s' % u.short,
                   message='%s attaches _bootstrap to a Deferred that is not an AUTHENTICATE reply: %s' % (u.short, why))
    run.floor('R04.1', 'addCallback(self._bootstrap) sites', k, 3)
    # nobody else calls _bootstrap
    for u in class_units(run.idx, proto(run)):
        for a in walk_unit(u):
            if isinstance(a, ast.Attribute) and a.attr == '_bootstrap' and dotted(a) == 'self._bootstrap':
                inside = u in units or u.name == '_do_password_authentication'
                run.ob('R04.1', u, a, '_bootstrap referenced only in the authentication chain', inside, slot='bootstrap-ref@%s' % u.short,
                       message='%s references _bootstrap outside the authentication chain' % u.short)


# R04.2 ------------------------------------------------------------------
def _method_atom(t):
    """'M' if test is `'M' in methods`."""
    if isinstance(t, ast.Compare) and len(t.ops) == 1 and isinstance(t.ops[0], ast.In) and \
            isinstance(t.left, ast.Constant) and t.left.value in METHODS and isinstance(t.comparators[0], ast.Name):
        return t.left.value
    return None


def r04_2(run):
    da = U(run, '_do_authenticate')

    def may_raise(node):
        for a in walk_local(node, descend_root=False) if not isinstance(node, FUNC_TYPES) else []:
            if isinstance(a, ast.Call) and dotted(a.func) == 'self._read_cookie':
                return ('IOError', 'RuntimeError')
        return None
    g = cfg_of(da, may_raise=may_raise)
    defs = local_defs(da)

    def cls(a):
        if isinstance(a, ast.Call):
            d = dotted(a.func) or ''
            if d == 'self._read_cookie':
                return 'read'
            if callee_attr(a) == 'queue_command':
                w = cmd_prefix(da, a)
                sh = shape(a.args[0], expr_defs_for_shape(defs)) if a.args else []
                if w == 'AUTHCHALLENGE':
                    return 'use:SAFECOOKIE'
                if w == 'AUTHENTICATE' and shape_text(sh).strip() == 'AUTHENTICATE':
                    return 'use:NULL'
                return 'use:?%s' % w
            if d == 'self.authenticate':
                if a.args and dotted(a.args[0]) == 'self._cookie_data':
                    return 'use:COOKIE'
                return 'use:?authenticate'
            if d in ('defer.maybeDeferred', 'maybeDeferred') and a.args and dotted(a.args[0]) == 'self.password_function':
                return 'use:HASHEDPASSWORD'
            if d == 'self.password_function':
                return 'use:HASHEDPASSWORD'
            if d in ('defer.fail', 'fail'):
                return 'fail'
        return None
    paths = g.paths(loop_bound=1, max_paths=200000)
    run.paths_enumerated += len(paths)
    nuse = {}
    seen = set()
    for p in paths:
        eff = path_effects(p, cls)
        adv = {}
        for n, lab in p.steps:
            if n.kind == 'test' and lab in ('T', 'F'):
                m = _method_atom(n.ast)
                if m:
                    adv[m] = (lab == 'T')
        read_ok = False
        for n, lab in p.steps:
            if any(t == 'read' and nn is n for t, nn, _ in eff):
                if lab != 'exc':
                    read_ok = True
        pwfun = None
        for n, b in p.took(lambda t: dotted(t) == 'self.password_function'):
            pwfun = b
        uses = [t[4:] for t, _, _ in eff if t.startswith('use:')]
        sig = (tuple(sorted(adv.items())), read_ok, pwfun, tuple(uses), p.exit)
        if sig in seen:
            continue
        seen.add(sig)
        ctx = 'advertised=%s cookie_read_ok=%s password_function=%s uses=%s exit=%s' % (
            dict(adv), read_ok, pwfun, uses, p.exit)
        where = [n for n, _ in p.steps if n.kind == 'stmt'][-1].ast if any(n.kind == 'stmt' for n, _ in p.steps) else da.node
        if p.exit == 'raise':
            run.ob('R04.2', da, where, 'a refusing path authenticates with nothing', not uses, slot='raise-after-use',
                   message='_do_authenticate raises after starting an authentication: %s' % ctx)
            continue
        run.ob('R04.2', da, where, 'at most one method is used per PROTOCOLINFO', len(uses) <= 1, slot='one-method',
               message='more than one authentication method started: %s' % ctx)
        for m in uses:
            nuse[m] = nuse.get(m, 0) + 1
            if m.startswith('?'):
                run.ob('R04.2', da, where, 'authentication step recognised', None, message='unrecognised authentication step %s' % m)
                continue
            run.ob('R04.2', da, where, 'only an advertised method is used [%s]' % m, adv.get(m) is True, slot='advertised:%s' % m,
                   message='%s is used on a path that never established it is advertised: %s' % (m, ctx))
            higher = METHODS[:METHODS.index(m)]
            if m == 'COOKIE':
                run.ob('R04.2', da, where, 'COOKIE only when SAFECOOKIE is not advertised', adv.get('SAFECOOKIE') is False, slot='prefer:COOKIE',
                       message='COOKIE is used without having excluded SAFECOOKIE: %s' % ctx)
            if m in ('SAFECOOKIE', 'COOKIE'):
                run.ob('R04.2', da, where, 'cookie methods only after the cookie was read', read_ok, slot='cookie-read:%s' % m,
                       message='%s is used on a path where the cookie file was not read successfully: %s' % (m, ctx))
            if m in ('HASHEDPASSWORD', 'NULL'):
                cookie_usable = read_ok and (adv.get('SAFECOOKIE') is not False or adv.get('COOKIE') is not False)
                run.ob('R04.2', da, where, '%s only when no cookie method is usable' % m, not cookie_usable, slot='prefer:%s-vs-cookie' % m,
                       message='%s is used although a cookie method is advertised and the cookie was read: %s' % (m, ctx))
            if m == 'HASHEDPASSWORD':
                run.ob('R04.2', da, where, 'password provider consulted only when one is configured', pwfun is True, slot='pwfun-set',
                       message='password_function consulted without testing that it is set: %s' % ctx)
            if m == 'NULL':
                pw_usable = (pwfun is not False) and (adv.get('HASHEDPASSWORD') is not False)
                run.ob('R04.2', da, where, 'NULL only when the password method is not usable', not pw_usable, slot='prefer:NULL-vs-password',
                       message='NULL is used although HASHEDPASSWORD is advertised and a password function is set: %s' % ctx)
    for m in METHODS:
        run.ob('R04.2', da, da.node, 'a path uses method %s' % m, nuse.get(m, 0) > 0, slot='has:%s' % m,
               message='no path of _do_authenticate uses %s any more' % m)
    run.count('R04.2 distinct (valuation, effect) signatures', len(seen))


# R04.3 ------------------------------------------------------------------
def r04_3(run):
    rc = U(run, '_read_cookie')
    g = cfg_of(rc)
    # the cookie may be held in a local that is stored into self._cookie_data (or read back from it): the same value
    defs0 = local_defs(rc)
    holders = ['self._cookie_data']
    for _, v in writes_of(rc, 'self._cookie_data'):
        if isinstance(v, ast.Name):
            holders.append(v.id)
    for nm, ds in defs0.items():
        if any(len(d) > 1 and isinstance(d[1], ast.AST) and dotted(d[1]) == 'self._cookie_data' for d in ds):
            holders.append(nm)
    keys = ['len(%s)' % h for h in holders]
    found = any(isinstance(n, ast.Compare) and any(k in src(n) for k in keys) for n in walk_unit(rc))
    run.ob('R04.3', rc, rc.node, 'cookie length is tested', found, slot='len-test', message='_read_cookie no longer tests len(self._cookie_data)')
    for ln in (0, 31, 32, 33, 64):
        paths = g.paths(eval_hook=hook_for_env(dict((k, ln) for k in keys), frozen_after_write=False))
        run.paths_enumerated += len(paths)
        for p in paths:
            if ln == 32:
                run.ob('R04.3', rc, rc.node, 'a 32-byte cookie is accepted', p.exit != 'raise', slot='accept-32',
                       message='_read_cookie rejects a 32-byte cookie')
            else:
                ok = p.exit == 'raise'
                kind = None
                if ok:
                    r = [n.ast for n, _ in p.steps if n.kind == 'stmt' and isinstance(n.ast, ast.Raise)][-1]
                    e = r.exc.func if isinstance(r.exc, ast.Call) else r.exc
                    kind = (dotted(e) or '').split('.')[-1]
                    ok = kind not in ('IOError', 'OSError', 'EnvironmentError', 'FileNotFoundError', 'PermissionError')
                run.ob('R04.3', rc, rc.node, 'a cookie of length != 32 is refused with a non-IOError', ok, slot='refuse-len',
                       message='_read_cookie accepts a %d-byte cookie (or refuses it with %s, which the caller treats as "unreadable")' % (ln, kind))
    # the data tested is the data read from the file given
    ws = writes_of(rc, 'self._cookie_data')
    rd = [c01._resolve_name(defs0, v) for _, v in ws if not is_none(v)]
    ok = len(rd) == 1 and 'open(' in src(rd[0]) and rc.params[1] in src(rd[0]) and '.read(' in src(rd[0])
    run.ob('R04.3', rc, rc.node, 'cookie data is the content of the named file', ok, slot='cookie-source',
           message='self._cookie_data is not read from the cookie file argument: %s' % [src(v) for v in rd])


# R04.4 ------------------------------------------------------------------
def r04_4(run):
    sa = U(run, '_safecookie_authchallenge')
    g = cfg_of(sa)
    defs = local_defs(sa)
    cmds = [c for c in calls_in(sa) if callee_attr(c) == 'queue_command']
    run.floor('R04.4', 'AUTHENTICATE senders in _safecookie_authchallenge', len(cmds), 1)
    cmp_tests = [t for t in g.live if t.kind == 'test' and isinstance(t.ast, ast.Call) and
                 (dotted(t.ast.func) or '').split('.')[-1] == 'compare_via_hash']
    run.ob('R04.4', sa, sa.node, 'server hash compared with compare_via_hash', len(cmp_tests) >= 1, slot='has-compare',
           message='_safecookie_authchallenge no longer compares the server hash')

    server_nonce_names = names_defined_by(sa, lambda v: 'SERVERNONCE' in src(v))

    def hmac_of(e):
        e = c01._resolve_name(defs, e)
        if isinstance(e, ast.Call) and (dotted(e.func) or '').split('.')[-1] == 'hmac_sha256' and len(e.args) == 2:
            return e
        return None

    def msg_ok(m):
        # cookie + client nonce + server nonce, in that order
        parts = []

        def flat(x):
            if isinstance(x, ast.BinOp) and isinstance(x.op, ast.Add):
                flat(x.left)
                flat(x.right)
            else:
                parts.append(dotted(x) or src(x))
        flat(m)
        return parts[:2] == ['self._cookie_data', 'self.client_nonce'] and len(parts) == 3 and parts[2] in server_nonce_names
    for c in cmds:
        for n in g.nodes_containing(c):
            ok = any(g.edge_dominates(t, 'T', n) for t in cmp_tests)
            run.ob('R04.4', sa, c, 'client proof sent only after the server hash verified', ok, slot='proof-after-verify',
                   message='AUTHENTICATE is reachable without compare_via_hash(expected, server_hash) having succeeded')
        sh = shape(c.args[0], expr_defs_for_shape(defs))
        holes = [h for h in sh if isinstance(h, Hole)]
        okp = shape_prefix(sh) == 'AUTHENTICATE ' and len(holes) == 1
        ch = None
        if okp:
            e = c01._resolve_name(defs, holes[0].node)
            if isinstance(e, ast.Call) and (dotted(e.func) or '').endswith('b16encode') and e.args:
                ch = hmac_of(e.args[0])
        okc = ch is not None and const(ch.args[0]) == KEY_C2S and msg_ok(ch.args[1])
        run.ob('R04.4', sa, c, 'proof = hex(HMAC(controller-to-server key, cookie|client nonce|server nonce))', okc, slot='client-hash',
               message='AUTHENTICATE argument is not the controller-to-server HMAC over cookie, client nonce, server nonce: %s' % shape_text(sh))
    for t in cmp_tests:
        a = t.ast
        exp = [hmac_of(x) for x in a.args]
        exp = [x for x in exp if x is not None]
        oke = len(a.args) == 2 and len(exp) == 1 and const(exp[0].args[0]) == KEY_S2C and msg_ok(exp[0].args[1])
        run.ob('R04.4', sa, a, 'expected server hash = HMAC(server-to-controller key, cookie|client nonce|server nonce)', oke, slot='server-hash',
               message='the value compared with the server hash is not the server-to-controller HMAC over cookie and both nonces')
        other = [x for x in a.args if hmac_of(x) is None]
        oks = len(other) == 1 and 'SERVERHASH' in src(c01._resolve_name(defs, other[0]))
        run.ob('R04.4', sa, a, 'compared against the SERVERHASH of the reply', oks, slot='server-hash-source',
               message='compare_via_hash is not given the reply\'s SERVERHASH')
        # failing leg raises
        fl = [s for lab, s in t.succ if lab == 'F']
        okr = bool(fl) and not any(e in g.reachable(fl) for e in g.normal_exits())
        run.ob('R04.4', sa, a, 'hash mismatch raises', okr, slot='mismatch-raises',
               message='a server hash mismatch does not abort _safecookie_authchallenge')
    run.ob('R04.4', sa, sa.node, 'server nonce comes from the reply', len(server_nonce_names) == 1, slot='server-nonce-source',
           message='server_nonce is not taken from the AUTHCHALLENGE reply')
    # client nonce is fresh randomness
    da = U(run, '_do_authenticate')
    cn = [v for _, v in writes_of(da, 'self.client_nonce')]
    okn = len(cn) >= 1 and all(isinstance(v, ast.Call) and dotted(v.func) == 'os.urandom' and const(v.args[0]) == 32 for v in cn)
    run.ob('R04.4', da, da.node, 'client nonce = os.urandom(32)', okn, slot='client-nonce', message='client nonce is not 32 fresh random bytes')
    # compare_via_hash itself compares the whole of both values
    cv = run.idx.unit('util.compare_via_hash')
    a, b = cv.params[0], cv.params[1]
    rets = [n for n in walk_unit(cv) if isinstance(n, ast.Return)]
    shape_ok = None
    why = 'unrecognised comparison'
    uses_zip = any(isinstance(n, ast.Call) and dotted(n.func) in ('zip', 'itertools.izip') for n in walk_unit(cv))
    has_len = any(isinstance(n, ast.Compare) and 'len(%s)' % a in src(n) and 'len(%s)' % b in src(n) for n in walk_unit(cv))
    loops = [n for n in walk_unit(cv) if isinstance(n, (ast.For, ast.While, ast.comprehension))]
    if len(rets) == 1 and not loops:
        r = rets[0].value
        if isinstance(r, ast.Compare) and len(r.ops) == 1 and isinstance(r.ops[0], ast.Eq):
            l, rr = r.left, r.comparators[0]
            lt = src(l).replace(a, '\0')
            rt = src(rr).replace(b, '\0')
            shape_ok = lt == rt and a in src(l) and b in src(rr)
            why = 'the two sides are not the same function of the two arguments: %s' % src(r)
        elif isinstance(r, ast.Call) and (dotted(r.func) or '').endswith('compare_digest'):
            cvd = local_defs(cv)

            def _res(x, depth=0):
                # a local bound once stands for its definition (digest_a = hmac.new(nonce, a, ...).digest())
                if isinstance(x, ast.Name) and x.id not in (a, b) and depth < 3:
                    d_ = single_def(cvd, x.id)
                    if d_ is not None and d_[0] == 'expr':
                        return _res(d_[1], depth + 1)
                return x
            if len(r.args) == 2:
                l, rr = _res(r.args[0]), _res(r.args[1])
                shape_ok = (src(l).replace(a, '\0') == src(rr).replace(b, '\0') and a in src(l) and b in src(rr)) or \
                    (src(l).replace(b, '\0') == src(rr).replace(a, '\0') and b in src(l) and a in src(rr))
            else:
                shape_ok = False
            why = 'compare_digest not applied to the same function of both arguments'
    elif uses_zip or loops:
        if not has_len:
            shape_ok = False
            why = 'element-wise comparison (zip/loop) without a length test accepts a truncated or empty value'
    run.ob('R04.4', cv, cv.node, 'compare_via_hash compares the complete values', shape_ok, slot='compare-shape',
           message='compare_via_hash: %s' % why)
    hm = run.idx.unit('util.hmac_sha256')
    rets_h = [r for r in walk_unit(hm) if isinstance(r, ast.Return)]
    okh = len(rets_h) == 1 and src(rets_h[0].value).replace(' ', '') == 'hmac.new(%s,%s,hashlib.sha256).digest()' % (hm.params[0], hm.params[1])
    run.ob('R04.4', hm, hm.node, 'hmac_sha256 is HMAC-SHA256(key, msg)', okh, slot='hmac-shape', message='hmac_sha256 returns %s' % [src(r.value) for r in rets_h])
    # taint: the raw cookie
    ci = proto(run)
    k = 0
    for u in class_units(run.idx, ci):
        parents = {}
        for a in walk_unit(u):
            for ch in ast.iter_child_nodes(a):
                parents[id(ch)] = a
        for a in walk_unit(u):
            if not (isinstance(a, ast.Attribute) and dotted(a) == 'self._cookie_data' and isinstance(a.ctx, ast.Load)):
                continue
            k += 1
            # climb to the enclosing call
            cur = a
            encl = None
            while id(cur) in parents:
                cur = parents[id(cur)]
                if isinstance(cur, ast.Call):
                    encl = cur
                    break
                if isinstance(cur, (ast.Compare, ast.stmt)):
                    break
            ok = False
            what = src(cur)[:70]
            if isinstance(cur, ast.Compare):
                ok = True
            elif encl is not None:
                fn = (dotted(encl.func) or '').split('.')[-1]
                if fn in ('len', 'hmac_sha256'):
                    ok = True
                elif dotted(encl.func) == 'self.authenticate' and u.name == '_do_authenticate':
                    # only on paths where SAFECOOKIE is excluded
                    gu = cfg_of(u)
                    ok = True
                    for n in gu.nodes_containing(encl):
                        gs = gu.guarded_by(n, lambda t: _method_atom(t) == 'SAFECOOKIE')
                        if not any(lab == 'F' for _, lab in gs):
                            # not by dominance - then on every feasible path (atoms evaluated consistently along a path: two flat
                            # guards `if cookie_auth and SAFECOOKIE...: return` / `if cookie_auth and COOKIE...:` exclude it as well)
                            ok_paths = True
                            for p_ in gu.paths(stop=lambda x, n=n: x is n, follow_exc=False):
                                if p_.last is not n:
                                    continue
                                took = [b for t_, b in p_.took(lambda t: _method_atom(t) == 'SAFECOOKIE')]
                                if not took or any(took):
                                    ok_paths = False
                            ok = ok and ok_paths
            run.ob('R04.4', u, a, 'the raw cookie flows only into len/HMAC (and AUTHENTICATE when SAFECOOKIE is not advertised)', ok,
                   slot='cookie-flow@%s:%s' % (u.short, what[:30]),
                   message='raw cookie data reaches %s in %s' % (what, u.short))
    run.floor('R04.4', 'reads of self._cookie_data', k, 5)


# R04.5 ------------------------------------------------------------------
def r04_7(run):
    """every authentication leg continues into the bootstrap: the Deferred _do_authenticate returns for a command it queued
    (AUTHCHALLENGE / AUTHENTICATE) has self._bootstrap chained behind it; the password leg hands over to
    _do_password_authentication (which chains _bootstrap itself, R04.5).  Otherwise the ready notification never fires."""
    da = U(run, '_do_authenticate')
    g = cfg_of(da)
    rets = [n for n in g.real_nodes() if n.kind == 'stmt' and isinstance(n.ast, ast.Return) and isinstance(n.ast.value, ast.Name)]
    run.floor('R04.7', 'authentication legs returning a chain', len(rets), 4)
    for rn in rets:
        nm = rn.ast.value.id
        for dn in reaching_defs(g, rn, nm):
            v = def_value(dn, nm)
            if not isinstance(v, ast.Call):
                continue
            callee = callee_attr(v)
            if callee in ('queue_command', 'authenticate'):
                want = 'self._bootstrap'
            elif dotted(v.func) in ('defer.maybeDeferred', 'maybeDeferred'):
                want = 'self._do_password_authentication'
            else:
                continue
            chain = g.nodes_where(lambda n: any(isinstance(a, ast.Call) and callee_attr(a) == 'addCallback' and dotted(receiver(a)) == nm and a.args and dotted(a.args[0]) == want
                                                for a in node_asts(n)))
            between = g.reachable([s_ for _, s_ in dn.succ], avoid=lambda n: n in chain, follow_exc=False)
            if want == 'self._do_password_authentication':
                # the provider may answer with (a Deferred firing with) a coroutine: it is awaited before the password is judged
                co = g.nodes_where(lambda n: any(isinstance(a, ast.Call) and callee_attr(a) == 'addCallback' and dotted(receiver(a)) == nm and a.args and
                                                 (dotted(a.args[0]) or '').split('.')[-1] == 'maybe_coroutine' for a in node_asts(n)))
                unawaited = g.reachable([s_ for _, s_ in dn.succ], avoid=lambda n: n in co, follow_exc=False)
                run.ob('R04.7', da, rn.ast, 'a coroutine answer of the password provider is awaited before it is used', not any(c in unawaited for c in chain) and bool(co),
                       slot='password-coroutine-awaited',
                       message='_do_authenticate hands the password provider\'s answer to _do_password_authentication without passing it through maybe_coroutine: '
                               'an async password_function yields a coroutine object that is sent (or refused) as the password')
            run.ob('R04.7', da, rn.ast, 'the %s leg continues into %s' % (src(v)[:40], want), rn not in between, slot='leg-continues:%s' % src(v)[:30],
                   message='_do_authenticate returns the Deferred of %s without %s chained behind it: authentication succeeds but the bootstrap never '
                           'runs and the ready notification never fires' % (src(v)[:40], want))


def r04_8(run):
    """an empty password is no password: _do_password_authentication refuses every falsy value the provider may return
    (None, '', b'') before anything is sent - an empty AUTHENTICATE is the NULL method, which Tor did not advertise here"""
    u = U(run, '_do_password_authentication')
    g = cfg_of(u)
    p = u.params[1]
    sends = g.nodes_where(lambda n: any(isinstance(a, ast.Call) and callee_attr(a) in ('authenticate', 'queue_command') for a in node_asts(n)))
    run.floor('R04.8', 'AUTHENTICATE senders in _do_password_authentication', len(sends), 1)
    for val, label in ((None, 'None'), ('', "''"), (b'', "b''")):
        def hook(node, v_, trail, val=val):
            r = eval_small(node.ast, {p: val})
            return None if r is UNKNOWN else bool(r)
        for p_ in g.paths(eval_hook=hook, follow_exc=False):
            run.paths_enumerated += 1
            sent = any(n in sends for n, _ in p_.steps)
            run.ob('R04.8', u, u.node, 'a %s password is refused before AUTHENTICATE' % label, not sent, slot='empty-password:%s' % label,
                   message='_do_password_authentication sends AUTHENTICATE for the password %s: that is NULL authentication, a method the server did not offer' % label,
                   path=p_.describe(6))


def r04_10(run):
    """(a) once the password provider has answered, _do_password_authentication either refuses (raises - the chain then ends in
    _auth_failed) or sends AUTHENTICATE with _bootstrap / _auth_failed chained: a silent return leaves the ready notification
    unfired for ever.  (b) "is a password provider configured?" is asked of the value the caller gave: the constructor stores the
    argument itself - a default stand-in (`password_function or (lambda: None)`) makes every protocol look configured, the password
    leg is taken instead of NULL and fails with "No password available"."""
    u = U(run, '_do_password_authentication')
    g = cfg_of(u)
    auth = g.nodes_where(lambda n: any(isinstance(a, ast.Call) and callee_attr(a) in ('authenticate', 'queue_command') for a in node_asts(n)))
    run.floor('R04.10', 'AUTHENTICATE senders in _do_password_authentication', len(auth), 1)
    r = g.reachable([g.entry], avoid=lambda n: n in auth, follow_exc=False)
    quiet = [e for e in g.normal_exits() if e in r]
    run.ob('R04.10', u, u.node, 'the password leg ends in AUTHENTICATE or in a refusal, never in a silent return', not quiet, slot='password-leg-decides',
           message='_do_password_authentication can return without sending AUTHENTICATE and without raising: neither _bootstrap nor _auth_failed runs and the '
                   'ready notification never fires')
    ci = proto(run)
    init = run.idx.find_method(ci, '__init__')
    ws = writes_of(init, 'self.password_function')
    run.floor('R04.10', 'assignments of self.password_function in __init__', len(ws), 1)
    for st, v in ws:
        run.ob('R04.10', init, st, 'the constructor stores the password provider it was given (None stays None)', isinstance(v, ast.Name) and v.id in init.params, slot='provider-stored-as-given',
               message='__init__ stores %s as password_function: the "is a provider configured" tests are then true for everybody, and with HASHEDPASSWORD advertised '
                       'the password leg is taken (and fails) where NULL should have been used' % src(v)[:50])


def r04_5(run):
    ci = proto(run)
    sites = []
    for u in class_units(run.idx, ci):
        for c in calls_in(u):
            d = dotted(c.func) or ''
            if d in ('self.post_bootstrap.callback', 'self.post_bootstrap.errback'):
                sites.append((u, c, d.split('.')[-1]))
    run.floor('R04.5', 'post_bootstrap fire sites', len(sites), 2)
    for u, c, kind in sites:
        ok = (kind == 'callback' and u.name == '_bootstrap') or (kind == 'errback' and u.name == '_auth_failed')
        run.ob('R04.5', u, c, 'ready fires: success only in _bootstrap, failure only in _auth_failed', ok, slot='fire@%s:%s' % (u.short, kind),
               message='post_bootstrap.%s called in %s' % (kind, u.short))
    bs = U(run, '_bootstrap')
    g = cfg_of(bs)
    cbn = g.nodes_where(lambda n: any(is_call_to(a, 'self.post_bootstrap.callback') for a in node_asts(n)))
    for p in g.paths():
        run.paths_enumerated += 1
        k = sum(1 for n in p.nodes() if n in cbn)
        if p.exit == 'raise':
            run.ob('R04.5', bs, bs.node, 'a failing bootstrap has not announced success', k == 0, slot='bootstrap-raise',
                   message='_bootstrap can fail after post_bootstrap.callback')
        else:
            run.ob('R04.5', bs, bs.node, 'a completed bootstrap announces success exactly once', k == 1, slot='bootstrap-once',
                   message='_bootstrap fires post_bootstrap %d times on %s' % (k, p.describe()))
    for n in cbn:
        later = g.reachable([s for _, s in n.succ])
        bad = [x for x in later if x.kind in ('stmt', 'test') and any(isinstance(a, (ast.Yield, ast.YieldFrom, ast.Await)) for a in node_asts(x))]
        run.ob('R04.5', bs, n.ast, 'success is announced after the last bootstrap query', not bad, slot='bootstrap-last',
               message='_bootstrap yields after post_bootstrap.callback (success before the bootstrap queries finished)')
    # every command issued by the bootstrap is awaited (no dropped Deferred) before success
    API = ('queue_command', 'get_info', 'get_info_raw', 'get_info_single', 'get_conf', 'get_conf_single', 'set_conf',
           'signal', 'add_event_listener', 'get_info_incremental')
    for st in walk_unit(bs):
        if isinstance(st, ast.Expr) and isinstance(st.value, ast.Call) and (dotted(st.value.func) or '').startswith('self.') \
                and callee_attr(st.value) in API:
            run.ob('R04.5', bs, st, 'bootstrap commands are awaited before ready is announced', False, slot='dropped-deferred:%s' % callee_attr(st.value),
                   message='_bootstrap issues %s without waiting for its reply: post_bootstrap reports success while the '
                           'command is outstanding and its failure is lost' % src(st.value)[:60])
    ys = [a for a in walk_unit(bs) if isinstance(a, ast.Yield)]
    run.floor('R04.5', 'bootstrap queries (yields) before ready', len(ys), 3)
    # unreturned chains end in addErrback(self._auth_failed)
    for name in ('connectionMade', '_do_password_authentication'):
        u = U(run, name)
        chain = [c for c in calls_in(u) if callee_attr(c) in ('addCallback', 'addErrback', 'addBoth', 'addCallbacks')]
        chain.sort(key=lambda c: (c.lineno, c.col_offset))
        ok = bool(chain) and callee_attr(chain[-1]) == 'addErrback' and dotted(chain[-1].args[0]) == 'self._auth_failed'
        run.ob('R04.5', u, chain[-1] if chain else u.node, 'dropped Deferred chain ends in addErrback(self._auth_failed)', ok, slot='chain-end@%s' % name,
               message='%s: the authentication chain does not end in addErrback(self._auth_failed): a failure there never fails post_bootstrap' % name)
    cm = U(run, 'connectionMade')
    cbs = [dotted(c.args[0]) for c in calls_in(cm) if callee_attr(c) == 'addCallback' and c.args]
    okc = 'self._do_authenticate' in cbs and \
        any(dotted(c.func) in ('self.protocolinfo',) or (callee_attr(c) == 'queue_command' and cmd_prefix(cm, c) == 'PROTOCOLINFO') for c in calls_in(cm))
    if not okc:
        # the same two steps as a coroutine of the class that connectionMade starts: x = yield self.protocolinfo(); yield self._do_authenticate(x)
        for c in calls_in(cm):
            d = dotted(c.func) or ''
            if d.startswith('self.') and d.count('.') == 1:
                hu = run.idx.find_method(ci, d[5:])
                if hu is None or not hu.is_inline_callbacks():
                    continue
                got = names_defined_by(hu, lambda v: isinstance(v, ast.Yield) and isinstance(v.value, ast.Call) and dotted(v.value.func) == 'self.protocolinfo')
                fed = [x for x in walk_unit(hu) if isinstance(x, ast.Call) and dotted(x.func) == 'self._do_authenticate' and x.args and dotted(x.args[0]) in got]
                awaited = [y for y in walk_unit(hu) if isinstance(y, (ast.Yield, ast.Return)) and y.value in fed]
                if got and fed and awaited:
                    okc = True
    run.ob('R04.5', cm, cm.node, 'connectionMade chains _do_authenticate on PROTOCOLINFO', okc,
           slot='connectionMade-chain', message='connectionMade does not start PROTOCOLINFO -> _do_authenticate')
    af = U(run, '_auth_failed')
    for c in calls_in(af, 'self.post_bootstrap.errback'):
        ok = c.args and dotted(c.args[0]) == af.params[1]
        run.ob('R04.5', af, c, '_auth_failed passes the failure on', bool(ok), slot='auth-failed-arg', message='_auth_failed does not pass the failure to post_bootstrap')


# R04.6 ------------------------------------------------------------------
def r04_6(run):
    da = U(run, '_do_authenticate')
    g = cfg_of(da)
    k = 0
    for c in calls_in(da, 'self._read_cookie'):
        k += 1
        arg = c.args[0] if c.args else None
        ok = False
        why = src(arg)
        if isinstance(arg, ast.Name):
            for n in g.nodes_containing(c):
                rds = reaching_defs(g, n, arg.id)
                vals = [def_value(r, arg.id) for r in rds]
                # follow plain copies (a temporary an inlined helper left), and drop "None" definitions when the call is behind
                # an "is not None" / truthiness test of the name
                for _ in range(3):
                    nxt = []
                    for r, v in zip(rds, vals):
                        if isinstance(v, ast.Name):
                            r2 = reaching_defs(g, r, v.id)
                            nxt += [(x, def_value(x, v.id)) for x in r2]
                        else:
                            nxt.append((r, v))
                    rds, vals = [a for a, _ in nxt], [b for _, b in nxt]
                tested = established(g, n, 'same', lambda t: dotted(t.left) == arg.id and is_none(t.comparators[0]), positive=False) or \
                    any(lab == 'T' for _, lab in g.guarded_by(n, lambda t: dotted(t) == arg.id))
                if tested:
                    keep = [(r, v) for r, v in zip(rds, vals) if not (v is not None and is_none(v))]
                    rds, vals = [a for a, _ in keep], [b for _, b in keep]
                ok = bool(vals) and all(isinstance(v, ast.Call) and (dotted(v.func) or '').split('.')[-1] == 'unescape_quoted_string'
                                        for v in vals)
                why = ', '.join(src(v) if v is not None else '<param/undefined>' for v in vals)
                if ok:
                    # its argument comes from the COOKIEFILE regex group
                    for r, v in zip(rds, vals):
                        a0 = v.args[0]
                        if isinstance(a0, ast.Name):
                            rd2 = reaching_defs(g, r, a0.id)
                            v2 = [def_value(x, a0.id) for x in rd2]
                            ok = ok and bool(v2) and all(x is not None and '.group(' in src(x) for x in v2)
        elif isinstance(arg, ast.Call) and (dotted(arg.func) or '').split('.')[-1] == 'unescape_quoted_string':
            ok = True
        run.ob('R04.6', da, c, 'cookie path is the unescaped COOKIEFILE value', ok, slot='cookie-path',
               message='_read_cookie is given %s, not unescape_quoted_string(<COOKIEFILE match>)' % why)
    run.floor('R04.6', '_read_cookie call sites', k, 1)
    rx = [c for c in calls_in(da) if dotted(c.func) in ('re.search', 're.match') and c.args and isinstance(const(c.args[0]), str)
          and 'COOKIEFILE' in const(c.args[0])]
    run.ob('R04.6', da, da.node, 'COOKIEFILE is extracted as a quoted string', bool(rx) and all('"' in const(c.args[0]) and '\\\\' in const(c.args[0]) for c in rx),
           slot='cookiefile-regex', message='COOKIEFILE regex no longer matches a quoted string with escapes')


def r04_9(run):
    """authenticate() presents the token it was given: between its argument and the AUTHENTICATE command the token passes only through
    str->bytes encoding and hex encoding (it is also the raw COOKIE of the COOKIE method: trimming "line endings" cuts one cookie in 128)"""
    u = U(run, 'authenticate')
    p = u.params[1]
    defs = local_defs(u)
    tainted = set([p])
    k = 0
    changed = True
    while changed:
        changed = False
        for nm, ds in defs.items():
            for d in ds:
                if len(d) > 1 and isinstance(d[1], ast.AST) and any(isinstance(x, ast.Name) and x.id in tainted for x in ast.walk(d[1])) and nm not in tainted:
                    tainted.add(nm)
                    changed = True
    for n in walk_unit(u):
        if isinstance(n, (ast.Assign, ast.AugAssign)) and any(t in tainted for t in assigned_targets(n)):
            v = n.value
            if not any(isinstance(x, ast.Name) and x.id in tainted for x in ast.walk(v)):
                continue
            k += 1
            ok = True
            why = ''
            for x in ast.walk(v):
                if isinstance(x, ast.Call):
                    ca = callee_attr(x)
                    touches = any(isinstance(y, ast.Name) and y.id in tainted for y in ast.walk(x))
                    if touches and ca not in ('encode', 'b2a_hex', 'hexlify', 'bytes', 'isinstance'):
                        ok, why = False, src(x)[:50]
                if isinstance(x, ast.Subscript) and any(isinstance(y, ast.Name) and y.id in tainted for y in ast.walk(x.value)):
                    ok, why = False, src(x)[:50]
            run.ob('R04.9', u, n, 'the authentication token is presented as given (encoding only)', ok, slot='token-verbatim:%s' % (assigned_targets(n) or ['?'])[0],
                   message='authenticate() rewrites the token with %s before sending it: a cookie (or password) that happens to contain those bytes is presented '
                           'altered and Tor refuses a valid credential' % why)
    run.floor('R04.9', 'token definitions in authenticate', k, 1)
    cmds = [c for c in calls_in(u) if callee_attr(c) == 'queue_command']
    ok = len(cmds) == 1 and cmds[0].args and any(isinstance(x, ast.Name) and x.id in tainted for x in ast.walk(cmds[0].args[0])) \
        and any(isinstance(c_, ast.Constant) and c_.value in (b'AUTHENTICATE ', 'AUTHENTICATE ') for c_ in ast.walk(cmds[0].args[0]))
    run.ob('R04.9', u, u.node, 'exactly one AUTHENTICATE command carrying the token', ok, slot='token-sent', message='authenticate() queues %s' % [src(c)[:60] for c in cmds])


def r04_11(run):
    """the ready notification fails when the connection is lost during authentication: that failure is delivered by
    connectionLost's errback loop, so the loop must reach the errback for every outstanding command - a partial operation on the
    command text in front of it (splitting "VERB args" when a bare AUTHENTICATE has no args) raises out of connectionLost and
    post_bootstrap never fires (rule R03.4, shared)"""
    from . import c03
    borrow(run, c03.r03_4, 'R04.11')


RULES = [
    ('R04.11', 'a loss during authentication reaches the errback of the outstanding command (R03.4 borrowed: no partial operation in the errback loop)', r04_11),
    ('R04.10', 'the password leg always decides (AUTHENTICATE or refusal); the provider is stored as given', r04_10),
    ('R04.1', 'call-graph vocabulary: only PROTOCOLINFO/AUTHCHALLENGE/AUTHENTICATE reachable before _bootstrap; _bootstrap attached only behind AUTHENTICATE', r04_1),
    ('R04.2', 'exhaustive path/valuation enumeration of _do_authenticate (advertised methods x cookie read outcome x password function): preference and usability oracle', r04_2),
    ('R04.3', '_read_cookie refuses every length != 32 with a non-IOError (length ordering classes)', r04_3),
    ('R04.4', 'dominance: AUTHENTICATE behind compare_via_hash success; HMAC keys/message per control-spec 3.24; taint of the raw cookie', r04_4),
    ('R04.5', 'post_bootstrap fired once: callback last in _bootstrap, errback in _auth_failed; dropped chains end in addErrback(_auth_failed)', r04_5),
    ('R04.7', 'every authentication leg chains the bootstrap (must-pass-through between the command and the return of its Deferred)', r04_7),
    ('R04.8', 'falsy passwords (None, empty str/bytes) are refused before AUTHENTICATE (representatives through the test)', r04_8),
    ('R04.9', 'integrity flow in authenticate(): the token reaches AUTHENTICATE through encode / hex only', r04_9),
    ('R04.6', 'reaching definitions: cookie path = unescape_quoted_string(regex group)', r04_6),
]

from ..selftest import M  # noqa: E402
F = 'txtorcon/torcontrolprotocol.py'
MUTANTS = [
    M('password-leg-silent-return', F, "        if not passwd:\n            raise RuntimeError(\"No password available.\")", "        if self._when_disconnected.has_fired():\n            return\n        if not passwd:\n            raise RuntimeError(\"No password available.\")", ['R04.10']),
    M('provider-default-stand-in', F, "        self.password_function = password_function\n        \"\"\"If set, a callable", "        self.password_function = password_function or (lambda: None)\n        \"\"\"If set, a callable", ['R04.10']),
    M('token-line-ending-trimmed', F, "        phrase = b2a_hex(passphrase)", "        passphrase = passphrase.rstrip(b'\\r\\n')\n        phrase = b2a_hex(passphrase)", ['R04.9']),
    M('token-truncated', F, "        phrase = b2a_hex(passphrase)", "        phrase = b2a_hex(passphrase[:32])", ['R04.9']),
    M('password-coroutine-not-awaited', F, "            d.addCallback(maybe_coroutine)\n            d.addCallback(self._do_password_authentication)", "            d.addCallback(self._do_password_authentication)", ['R04.7']),
    M('password-coroutine-awaited-late', F, "            d.addCallback(maybe_coroutine)\n            d.addCallback(self._do_password_authentication)", "            d.addCallback(self._do_password_authentication)\n            d.addCallback(maybe_coroutine)", ['R04.7']),
    M('empty-password-sent', F, "        if not passwd:\n            raise RuntimeError(\"No password available.\")", "        if passwd is None:\n            raise RuntimeError(\"No password available.\")", ['R04.8']),
    M('cookie-leg-no-bootstrap', F, "                d = self.authenticate(self._cookie_data)\n                d.addCallback(self._bootstrap)\n", "                d = self.authenticate(self._cookie_data)\n", ['R04.7']),
    M('safecookie-leg-no-bootstrap', F, "                d.addCallback(self._safecookie_authchallenge)\n                d.addCallback(self._bootstrap)\n", "                d.addCallback(self._safecookie_authchallenge)\n", ['R04.7']),
    M('getinfo-in-connectionMade', F, "        d = self.protocolinfo()\n        d.addCallback(self._do_authenticate)", "        self.queue_command('GETINFO version')\n        d = self.protocolinfo()\n        d.addCallback(self._do_authenticate)", ['R04.1']),
    M('bootstrap-before-proof', F, "                d.addCallback(self._safecookie_authchallenge)\n                d.addCallback(self._bootstrap)", "                d.addCallback(self._bootstrap)\n                d.addCallback(self._safecookie_authchallenge)", ['R04.1']),
    M('cookie-before-safecookie', F, ["            if 'SAFECOOKIE' in methods:\n                txtorlog", "            elif 'COOKIE' in methods:\n                txtorlog"], ["            if 'COOKIE' in methods and 'SAFECOOKIE' in methods:\n                txtorlog", "            elif 'COOKIE' in methods or 'SAFECOOKIE' in methods:\n                txtorlog"], ['R04.2']),
    M('password-before-cookie', F, ["        if cookie_auth:\n            if 'SAFECOOKIE' in methods:", ], ["        if cookie_auth and not (self.password_function and 'HASHEDPASSWORD' in methods):\n            if 'SAFECOOKIE' in methods:"], ['R04.2']),
    M('cookie-auth-despite-ioerror', F, "                    txtorlog.msg(\"Reading COOKIEFILE failed: \" + str(why))\n", "                    txtorlog.msg(\"Reading COOKIEFILE failed: \" + str(why))\n                    cookie_auth = True\n", ['R04.2']),
    M('null-unadvertised', F, "        if 'NULL' in methods:\n            d = self.queue_command('AUTHENTICATE')", "        if 'NULL' in methods or not self.password_function:\n            d = self.queue_command('AUTHENTICATE')", ['R04.2']),
    M('len-gt-32', F, "if len(self._cookie_data) != 32:", "if len(self._cookie_data) > 32:", ['R04.3']),
    M('len-check-ioerror', F, "        if len(self._cookie_data) != 32:\n            raise RuntimeError(", "        if len(self._cookie_data) != 32:\n            raise IOError(", ['R04.3']),
    M('proof-before-verify', F, "        if not compare_via_hash(expected_server_hash, server_hash):\n            raise RuntimeError(", "        if not compare_via_hash(expected_server_hash, server_hash) and False:\n            raise RuntimeError(", ['R04.4']),
    M('mismatch-only-logged', F, "        if not compare_via_hash(expected_server_hash, server_hash):\n            raise RuntimeError(", "        if not compare_via_hash(expected_server_hash, server_hash):\n            txtorlog.msg(", ['R04.4']),
    M('same-key-both-ways', F, "b\"Tor safe cookie authentication controller-to-server hash\"", "b\"Tor safe cookie authentication server-to-controller hash\"", ['R04.4']),
    M('raw-cookie-sent', F, "        return self.queue_command(b'AUTHENTICATE ' + client_hash_hex)", "        return self.queue_command(b'AUTHENTICATE ' + hexlify(self._cookie_data))", ['R04.4']),
    M('no-errback-password-chain', F, "        d.addCallback(self._bootstrap)\n        d.addErrback(self._auth_failed)\n", "        d.addCallback(self._bootstrap)\n", ['R04.5']),
    M('ready-before-last-query', F, "        yield self.queue_command('USEFEATURE EXTENDED_EVENTS')\n\n        self.post_bootstrap.callback(self)\n", "        self.post_bootstrap.callback(self)\n        yield self.queue_command('USEFEATURE EXTENDED_EVENTS')\n\n", ['R04.5']),
    M('cookie-path-not-unescaped', F, "                cookiefile = unescape_quoted_string(cookiefile)\n", "                cookiefile = cookiefile[1:-1]\n", ['R04.6']),
]
TWINS = [
    M('cookie-via-local', F, "        self._cookie_data = open(cookiefile, 'rb').read()\n        if len(self._cookie_data) != 32:", "        cookie = open(cookiefile, 'rb').read()\n        self._cookie_data = cookie\n        if len(cookie) != 32:"),
    M('elif-to-if-after-return', F, "            elif 'COOKIE' in methods:\n                txtorlog", "            if 'COOKIE' in methods:\n                txtorlog"),
    M('elif-to-nested', F, "            elif 'COOKIE' in methods:\n                txtorlog.msg(\"Using COOKIE authentication\",\n                             cookiefile, len(self._cookie_data), \"bytes\")\n                d = self.authenticate(self._cookie_data)\n                d.addCallback(self._bootstrap)\n                return d\n",
      "            else:\n                if 'COOKIE' in methods:\n                    d = self.authenticate(self._cookie_data)\n                    d.addCallback(self._bootstrap)\n                    return d\n"),
    M('len-eq-return', F, "        if len(self._cookie_data) != 32:\n            raise RuntimeError(\n                \"Expected authentication cookie to be 32 bytes, got %d\" %\n                len(self._cookie_data)\n            )\n", "        if len(self._cookie_data) == 32:\n            return\n        raise RuntimeError(\"Expected authentication cookie to be 32 bytes\")\n"),
]
