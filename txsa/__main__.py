"""CLI:  ./tx check <ID> [--tier quick|thorough] [--root DIR] [--no-evidence]
         ./tx all [--tier T]          ./tx replay <report.json>"""
import argparse
import json
import os
import sys
import traceback

from .index import Index, AnchorVanished
from .report import Run
from . import rules


def check(prop, tier, root, write_evidence=True, quiet=False, only=None, overrides=None):
    try:
        idx = Index(root, overrides=overrides)
    except AnchorVanished as e:
        if not quiet:
            print('ANALYSIS-INCOMPLETE property=%s source index: %s' % (prop, e))
        return 2, None
    run = Run(prop, idx, tier, int(os.environ.get('VERIF_SEED', '0') or 0))
    rules.run_rules(run, only=only)
    if tier == 'thorough' and overrides is None and only is None:
        from . import selftest
        selftest.run_for(run, root)
    code = run.finish(write_evidence=write_evidence, quiet=quiet)
    return code, run


def main(argv=None):
    ap = argparse.ArgumentParser(prog='tx')
    sub = ap.add_subparsers(dest='cmd')
    c = sub.add_parser('check')
    c.add_argument('prop')
    c.add_argument('--tier', default=os.environ.get('VERIF_TIER') or 'quick', choices=['quick', 'thorough'])
    c.add_argument('--root', default='/repo')
    c.add_argument('--no-evidence', action='store_true')
    c.add_argument('--only', action='append')
    a = sub.add_parser('all')
    a.add_argument('--tier', default='quick', choices=['quick', 'thorough'])
    a.add_argument('--root', default='/repo')
    a.add_argument('--no-evidence', action='store_true')
    r = sub.add_parser('replay')
    r.add_argument('report')
    r.add_argument('--root', default=None)
    args = ap.parse_args(argv)
    try:
        if args.cmd == 'check':
            code, _ = check(args.prop.upper(), args.tier, args.root, not args.no_evidence, only=args.only)
            return code
        if args.cmd == 'all':
            worst = 0
            for p in rules.available():
                code, _ = check(p, args.tier, args.root, not args.no_evidence)
                worst = max(worst, code) if code != 1 and worst != 1 else 1
            return worst
        if args.cmd == 'replay':
            rep = json.load(open(args.report))
            f = rep['finding']
            root = args.root or rep.get('root', '/repo')
            code, run = check(f['property'], rep.get('tier', 'quick'), root, write_evidence=False,
                              quiet=True, only=[f['rule']])
            hit = [x for x in (run.findings if run else []) if x.key == f['key']]
            if hit:
                x = hit[0]
                print('REPRODUCED %s' % x.key)
                print('%s:%d: [%s] %s: %s' % (x.file, x.line, x.rule, x.func, x.message))
                if x.path:
                    print('    path: %s' % x.path)
                try:
                    lines = open(os.path.join(root, x.file)).read().splitlines()
                    for i in range(max(0, x.line - 4), min(len(lines), x.line + 3)):
                        print('  %5d%s %s' % (i + 1, '>' if i + 1 == x.line else ' ', lines[i]))
                except OSError:
                    pass
                return 1
            print('NOT-REPRODUCED %s (rule %s no longer fires on this construct)' % (f['key'], f['rule']))
            return 0
        ap.print_help()
        return 2
    except Exception:
        print('ANALYSIS-ERROR ' + traceback.format_exc())
        return 2


if __name__ == '__main__':
    sys.exit(main())
