"""Source normalisation applied to every module before it is indexed: *inlining of un-anchored private helpers*.

Why: the rules describe what a mechanism function does (which statements lie on which paths).  A maintainer who folds a
repeated block into a new private helper - a method, a module-level function or a nested closure - changes none of that, but a
per-function rule would lose the statements it looks for (and who-may-write rules would see a new writer).  Instead of teaching
every rule about helpers, the analysed program is put into a normal form first: calls of small private helpers that no rule
refers to by name are replaced by the helper's body, and helpers all of whose uses were replaced are dropped.

What is inlined (everything else is left exactly as written):
  * the helper is a function whose name starts with one underscore (not a dunder), or a function nested in another function;
  * NO rule module mentions its name (ANCHORS: every identifier that occurs inside a string constant of txsa/rules/*.py,
    tables.py or strsem.py) - functions the rules are anchored on keep their identity;
  * undecorated, or decorated only with inlineCallbacks (then only `yield helper(...)` sites inside inlineCallbacks callers);
  * plain positional parameters (no defaults, *args, **kw), never assigned in the body; no global/nonlocal, no nested def / lambda /
    class in the body; not recursive;
  * body shape, after the docstring:
       EXPR      a single `return <expr>`                      -> every call `h(a, b)` becomes the expression
       STMT      no `return` at all                            -> `h(a, b)` as a statement becomes the body
       STMT_RET  no `return` except a final `return <expr>`    -> `x = h(..)` / `return h(..)` / `h(..)` become body + use of <expr>
    (helpers with early returns are not touched: that would need control-flow rewriting);
  * the call binds: positional count (or keywords naming parameters) matches, no star-arguments;
  * for methods: called as `self.<name>(...)`, the name is defined by exactly one class of the package.
Arguments are substituted for parameters; an argument that is not a simple name / attribute / constant and whose parameter is
used more than once is bound to a temporary first (statement forms) or blocks the inlining (EXPR form).  Locals of the helper are
renamed `<helper>__<local>`.  Inlined nodes carry the line of the call site.  A helper is removed from the tree when no
reference to it is left anywhere in the package.

This is a transformation of the *analysed view* only; nothing is written to disk, and `ModuleInfo.src` keeps the text as written.
"""
import ast
import copy
import glob
import os
import re

_ANCHORS = None


def anchors():
    global _ANCHORS
    if _ANCHORS is None:
        here = os.path.dirname(os.path.abspath(__file__))
        names = set()
        files = sorted(glob.glob(os.path.join(here, 'rules', '*.py'))) + [os.path.join(here, f) for f in ('tables.py', 'strsem.py', 'match.py')]
        # (the vocabulary is a pure function of the rule sources: kept next to them with their digest, recomputed when they change)
        import hashlib
        import json
        h = hashlib.sha256()
        for f in files:
            try:
                h.update(open(f, 'rb').read())
            except OSError:
                pass
        cache = os.path.join(here, 'anchors.json')
        try:
            c = json.load(open(cache))
            if c.get('digest') == h.hexdigest():
                _ANCHORS = set(c['names'])
                return _ANCHORS
        except (OSError, ValueError):
            pass
        for f in files:
            try:
                tree = ast.parse(open(f).read())
            except (OSError, SyntaxError):
                continue
            # the self-test corpora (MUTANTS / TWINS) are program text, not references to anchors
            skip = set()
            for st in tree.body:
                if isinstance(st, ast.Assign) and any(isinstance(t, ast.Name) and t.id in ('MUTANTS', 'TWINS') for t in st.targets):
                    skip.update(id(x) for x in ast.walk(st))
            for n in ast.walk(tree):
                if id(n) in skip:
                    continue
                if isinstance(n, ast.Constant) and isinstance(n.value, str) and len(n.value) < 200:
                    names.update(re.findall(r'[A-Za-z_][A-Za-z0-9_]*', n.value))
        _ANCHORS = names
        try:
            json.dump({'digest': h.hexdigest(), 'names': sorted(names)}, open(cache, 'w'))
        except OSError:
            pass
    return _ANCHORS


NOISE_ROOTS = ('log', 'txtorlog', 'logging', 'logger', 'print', 'warnings', 'warn')


def _is_noise(st):
    """a statement with no bearing on any rule: a bare logging / print call (dropped when a helper is written out at its call site)"""
    if isinstance(st, ast.Expr) and isinstance(st.value, ast.Call):
        f = st.value.func
        while isinstance(f, ast.Attribute):
            f = f.value
        return isinstance(f, ast.Name) and f.id in NOISE_ROOTS
    return isinstance(st, ast.Pass)


def _is_ic(dec):
    d = ast.unparse(dec)
    return d.endswith('inlineCallbacks')


def _simple(e):
    if isinstance(e, (ast.Name, ast.Constant)):
        return True
    if isinstance(e, ast.Attribute):
        return _simple(e.value)
    return False


def _pure(e):
    """an expression over local names and constants only (no calls, no field reads - a field may be re-bound between two uses):
    it may be written out at every use of the parameter"""
    if isinstance(e, (ast.Name, ast.Constant)):
        return True
    if isinstance(e, ast.BinOp):
        return _pure(e.left) and _pure(e.right)
    if isinstance(e, ast.UnaryOp):
        return _pure(e.operand)
    if isinstance(e, (ast.Tuple, ast.List)):
        return all(_pure(x) for x in e.elts)
    return False


def _contains_return(node):
    # returns of nested functions are their own
    stack = [node]
    while stack:
        x = stack.pop()
        if isinstance(x, ast.Return):
            return True
        for c in ast.iter_child_nodes(x):
            if isinstance(c, (ast.FunctionDef, ast.AsyncFunctionDef, ast.Lambda)):
                continue
            stack.append(c)
    return False


def _ends_in_return(stmts):
    if not stmts:
        return False
    last = stmts[-1]
    if isinstance(last, ast.Return):
        return True
    if isinstance(last, ast.If) and last.orelse:
        return _ends_in_return(last.body) and _ends_in_return(last.orelse)
    return False


def _structure(stmts, retname):
    """guard-clause returns -> nested if/else with assignments to `retname`; None if a return sits somewhere this cannot reach
    (inside a loop / try / with)"""
    out = []
    for i, st in enumerate(stmts):
        if isinstance(st, ast.Return):
            if st.value is not None:
                out.append(ast.copy_location(ast.Assign(targets=[ast.Name(id=retname, ctx=ast.Store())], value=st.value), st))
            else:
                out.append(ast.copy_location(ast.Assign(targets=[ast.Name(id=retname, ctx=ast.Store())], value=ast.Constant(value=None)), st))
            return out            # what follows a return is dead
        if isinstance(st, ast.If) and _contains_return(st):
            rest = stmts[i + 1:]
            b_ret, o_ret = _ends_in_return(st.body), _ends_in_return(st.orelse)
            if b_ret and o_ret:
                nb, no = _structure(st.body, retname), _structure(st.orelse, retname)
                rest = []
            elif b_ret:
                nb, no = _structure(st.body, retname), _structure(list(st.orelse) + rest, retname)
                rest = []
            elif o_ret:
                nb, no = _structure(list(st.body) + rest, retname), _structure(st.orelse, retname)
                rest = []
            else:
                # a return somewhere inside one arm (the 6xx leg of an if/elif chain): what follows the statement runs after
                # whichever arm did not return - it is continued inside both arms (duplicated, bounded by the helper's size)
                if len(rest) > 12:
                    return None
                nb = _structure(list(st.body) + [copy.deepcopy(x) for x in rest], retname)
                no = _structure(list(st.orelse) + [copy.deepcopy(x) for x in rest], retname)
                rest = []
            if nb is None or no is None:
                return None
            out.append(ast.copy_location(ast.If(test=st.test, body=nb or [ast.Pass()], orelse=no), st))
            if not rest:
                return out
            continue
        if isinstance(st, ast.For) and not st.orelse and _contains_return(st):
            # a search loop: `for x in xs: if c: return e` / `return d`  ->  for x in xs: if c: r = e; break / else: r = d
            body = _loop_returns(st.body, retname)
            rest = _structure(stmts[i + 1:], retname)
            if body is None or rest is None:
                return None
            out.append(ast.copy_location(ast.For(target=st.target, iter=st.iter, body=body, orelse=rest or [ast.Pass()], type_comment=None), st))
            return out
        if _contains_return(st):
            return None
        out.append(st)
    return out


def _loop_returns(stmts, retname):
    """returns inside a loop body (under plain ifs only) become `retname = value; break`; None if a return or an own break sits
    where that is not the same thing (nested loop, try, with) """
    out = []
    for st in stmts:
        if isinstance(st, ast.Return):
            val = st.value if st.value is not None else ast.Constant(value=None)
            out.append(ast.copy_location(ast.Assign(targets=[ast.Name(id=retname, ctx=ast.Store())], value=val), st))
            out.append(ast.copy_location(ast.Break(), st))
            return out
        if isinstance(st, ast.Break):
            return None
        if isinstance(st, ast.If):
            b, o = _loop_returns(st.body, retname), _loop_returns(st.orelse, retname)
            if b is None or o is None:
                return None
            out.append(ast.copy_location(ast.If(test=st.test, body=b or [ast.Pass()], orelse=o), st))
            continue
        if _contains_return(st) or any(isinstance(x, ast.Break) for x in ast.walk(st) if not isinstance(st, (ast.For, ast.While))):
            return None
        if isinstance(st, (ast.For, ast.While)) and _contains_return(st):
            return None
        out.append(st)
    return out


class _Helper(object):
    def __init__(self, fn, kind, owner, method):
        self.fn = fn
        self.name = fn.name
        self.kind = kind            # 'EXPR' | 'STMT' | 'STMT_RET'
        self.gen = any(_is_ic(d) for d in fn.decorator_list)
        self.owner = owner          # ClassDef / FunctionDef / Module node that holds the def
        self.method = method
        a = fn.args
        self.params = [x.arg for x in (a.args[1:] if method else a.args)]
        self._params_all = a
        self.inlined = 0

    @property
    def body(self):
        body = list(self.fn.body)
        if body and isinstance(body[0], ast.Expr) and isinstance(body[0].value, ast.Constant) and isinstance(body[0].value.value, str):
            body = body[1:]
        if self.kind == 'EXPR':
            body = [b for b in body if not _is_noise(b)]
        return body

    @property
    def locals(self):
        out = set()
        for b in self.body:
            for x in ast.walk(b):
                if isinstance(x, ast.Name) and isinstance(x.ctx, ast.Store):
                    out.add(x.id)
                elif isinstance(x, ast.ExceptHandler) and x.name:
                    out.add(x.name)
        return out

    @property
    def uses(self):
        out = {}
        for b in self.body:
            for x in ast.walk(b):
                if isinstance(x, ast.Name) and isinstance(x.ctx, ast.Load) and x.id in self.params:
                    out[x.id] = out.get(x.id, 0) + 1
        return out


def _classify(fn, method, nested, known=None):
    """-> kind or None.  `known`: the names the recorded vocabulary has in this scope (None: no record) - a name the rules mention
    is an anchor only where the recorded tree had it; a *new* function that happens to share a name with an anchor elsewhere
    (a fresh Event._notify next to Circuit._notify) is a helper like any other"""
    name = fn.name
    if not nested and (not name.startswith('_') or name.startswith('__')):
        return None
    if name in anchors() and (known is None or name in known):
        return None
    if any(not _is_ic(d) for d in fn.decorator_list):
        return None
    a = fn.args
    if a.vararg or a.kwarg or a.kwonlyargs or a.defaults or getattr(a, 'posonlyargs', []):
        return None
    if method and (not a.args or a.args[0].arg != 'self'):
        return None
    params = set(x.arg for x in (a.args[1:] if method else a.args))
    body = list(fn.body)
    if body and isinstance(body[0], ast.Expr) and isinstance(body[0].value, ast.Constant) and isinstance(body[0].value.value, str):
        body = body[1:]
    if not body:
        return None
    gen = bool(fn.decorator_list)
    rets = []
    # nested functions / lambdas travel with the body when their own parameters cannot capture a substituted name
    own_names = set(params) | set(x.id for b in body for x in ast.walk(b) if isinstance(x, ast.Name) and isinstance(x.ctx, ast.Store))
    inner_nodes = set()
    for b in body:
        for x in ast.walk(b):
            if isinstance(x, (ast.FunctionDef, ast.AsyncFunctionDef, ast.Lambda)) and x is not fn:
                ia = x.args
                inames = set(y.arg for y in ia.args + ia.kwonlyargs + getattr(ia, 'posonlyargs', [])) | set(y.arg for y in (ia.vararg, ia.kwarg) if y is not None)
                if inames & own_names or (not isinstance(x, ast.Lambda) and (x.name in own_names or x.decorator_list)):
                    return None
                for y in ast.walk(x):
                    if y is not x:
                        inner_nodes.add(id(y))
    for b in body:
        for x in ast.walk(b):
            if id(x) in inner_nodes:
                if isinstance(x, (ast.Global, ast.Nonlocal, ast.ClassDef)):
                    return None
                continue
            if isinstance(x, (ast.AsyncFunctionDef, ast.ClassDef, ast.Global, ast.Nonlocal, ast.Await, ast.YieldFrom, ast.NamedExpr)):
                return None
            if isinstance(x, ast.Yield) and not gen:
                return None
            if isinstance(x, ast.Name) and isinstance(x.ctx, ast.Del) and x.id in params:
                return None
            if isinstance(x, ast.Return) and id(x) not in inner_nodes:
                rets.append(x)
            # recursion
            if isinstance(x, ast.Call):
                f = x.func
                if (isinstance(f, ast.Name) and f.id == name) or (isinstance(f, ast.Attribute) and f.attr == name):
                    return None
    if gen and not any(isinstance(x, ast.Yield) for b in body for x in ast.walk(b)):
        pass
    if not rets:
        return 'STMT'
    if len(rets) == 1 and rets[0] is body[-1] and rets[0].value is not None:
        if len([b for b in body if not _is_noise(b)]) == 1 and not gen:
            return 'EXPR'
        return 'STMT_RET'
    if len(rets) == 1 and rets[0] is body[-1] and rets[0].value is None:
        return 'STMT'
    # guard clauses: `if c: return a` ... `return b` - structured into nested if/else at the call site
    if _structure([copy.deepcopy(b) for b in body], '_r') is not None:
        return 'STRUCT'
    return None


class _Subst(ast.NodeTransformer):
    def __init__(self, mapping, rename):
        self.mapping, self.rename = mapping, rename

    def visit_Name(self, node):
        if isinstance(node.ctx, ast.Load) and node.id in self.mapping:
            return ast.copy_location(copy.deepcopy(self.mapping[node.id]), node)
        if node.id in self.rename:
            return ast.copy_location(ast.Name(id=self.rename[node.id], ctx=node.ctx), node)
        return node

    def visit_ExceptHandler(self, node):
        self.generic_visit(node)
        if node.name in self.rename:
            node.name = self.rename[node.name]
        return node


def _relocate(nodes, at):
    for n in nodes:
        for x in ast.walk(n):
            if hasattr(x, 'lineno'):
                x.lineno = at.lineno
                x.end_lineno = getattr(at, 'end_lineno', at.lineno)
                x.col_offset = getattr(at, 'col_offset', 0)
                x.end_col_offset = getattr(at, 'end_col_offset', 0)
    return nodes


def _bind(h, call):
    """{param: arg expr} or None"""
    if any(isinstance(x, ast.Starred) for x in call.args) or any(k.arg is None for k in call.keywords):
        return None
    if len(call.args) > len(h.params):
        return None
    m = dict(zip(h.params, call.args))
    for k in call.keywords:
        if k.arg not in h.params or k.arg in m:
            return None
        m[k.arg] = k.value
    if set(m) != set(h.params):
        return None
    return m


def _callee_key(call, in_class):
    """('m', name) for self.name(...), ('f', name) for name(...), ('x', name) for <simple receiver>.name(...)"""
    f = call.func
    if isinstance(f, ast.Attribute) and isinstance(f.value, ast.Name) and f.value.id == 'self':
        return ('m', f.attr)
    if isinstance(f, ast.Attribute) and _simple(f.value):
        return ('x', f.attr)
    if isinstance(f, ast.Name):
        return ('f', f.id)
    return None


class _Inliner(ast.NodeTransformer):
    """rewrites ONE function body; `scope` maps callee keys to the _Helper objects visible from here"""

    def __init__(self, scope, caller_gen, depth=0):
        self.scope = scope
        self.caller_gen = caller_gen
        self.depth = depth
        self.root = None
        self.changed = False

    # do not descend into nested scopes here: they are processed as functions of their own
    def visit_FunctionDef(self, node):
        if node is self.root:
            self.generic_visit(node)
        return node

    visit_AsyncFunctionDef = visit_FunctionDef

    def visit_Lambda(self, node):
        return node

    def visit_ClassDef(self, node):
        return node

    def _helper_for(self, call, want_gen):
        if not isinstance(call, ast.Call):
            return None, None
        k = _callee_key(call, True)
        h = self.scope.get(k)
        if h is None or h.gen != want_gen:
            return None, None
        m = _bind(h, call)
        if m is None:
            return None, None
        if k[0] == 'x':
            m = dict(m)
            m['self'] = call.func.value       # the receiver stands for `self` inside the inlined body
        return h, m

    def _expand(self, h, m, at):
        """-> (statements, return expression or None)"""
        pre = []
        mapping = {}
        stored = set(x.id for b in h.body for x in ast.walk(b) if isinstance(x, ast.Name) and isinstance(x.ctx, ast.Store) and x.id in h.params)
        for p, a in m.items():
            if p == 'self':
                mapping['self'] = a
                continue
            if p in stored:
                # a parameter the helper re-binds is a local of its own, initialised with the argument
                tmp = '%s__%s' % (h.name.strip('_'), p)
                pre.append(ast.Assign(targets=[ast.Name(id=tmp, ctx=ast.Store())], value=copy.deepcopy(a), lineno=at.lineno, col_offset=0))
            elif _pure(a) or h.uses.get(p, 0) <= 1:
                mapping[p] = a
            else:
                tmp = '%s__%s' % (h.name.strip('_'), p)
                pre.append(ast.Assign(targets=[ast.Name(id=tmp, ctx=ast.Store())], value=copy.deepcopy(a), lineno=at.lineno, col_offset=0))
                mapping[p] = ast.Name(id=tmp, ctx=ast.Load())
        rename = dict((l, '%s__%s' % (h.name.strip('_'), l)) for l in h.locals)
        sub = _Subst(mapping, rename)
        body = [sub.visit(copy.deepcopy(b)) for b in h.body]
        ret = None
        if h.kind == 'STRUCT':
            rn = '%s__result' % h.name.strip('_')
            body = [ast.Assign(targets=[ast.Name(id=rn, ctx=ast.Store())], value=ast.Constant(value=None))] + _structure(body, rn)
            ret = ast.Name(id=rn, ctx=ast.Load())
        elif h.kind in ('STMT_RET', 'EXPR'):
            ret = body[-1].value
            body = body[:-1]
        elif body and isinstance(body[-1], ast.Return):
            body = body[:-1]
        h.inlined += 1
        self.changed = True
        out = _relocate(pre + body, at)
        if ret is not None:
            _relocate([ret], at)
        return out, ret

    def _hoist_leftmost(self, st, holder, field):
        """the helper call that is evaluated first in an expression (`helper(x).strip()`, `helper(x) + s`, `helper(x)[0]`): its body
        runs in front of the statement; returns the statements to put in front, or None"""
        parent, pf, e = holder, field, getattr(holder, field)
        for _ in range(8):
            if isinstance(e, ast.Call):
                h, m = self._helper_for(e, False)
                if h is not None and h.kind in ('STMT_RET', 'STRUCT') and parent is not holder:
                    body, ret = self._expand(h, m, st)
                    # (the value is what the statement evaluates first, directly after the body: no temporary needed)
                    setattr(parent, pf, ret)
                    for b in body:
                        ast.fix_missing_locations(b)
                    return body
                parent, pf, e = e, 'func', e.func
            elif isinstance(e, (ast.Attribute, ast.Subscript)):
                parent, pf, e = e, 'value', e.value
            elif isinstance(e, (ast.BinOp, ast.Compare)):
                parent, pf, e = e, 'left', e.left
            else:
                return None
        return None

    def _hoist_arg(self, st, outer):
        """`f(a, helper(x))` as the value of a statement: the helper's body runs first when everything evaluated before it
        (the callee expression, the earlier arguments) is pure; returns the statements to put in front, or None"""
        if isinstance(st, (ast.Assign, ast.Return, ast.Expr)) and st.value is not None:
            pre = self._hoist_leftmost(st, st, 'value')
            if pre is not None:
                return pre
        if not isinstance(outer, ast.Call) or outer.keywords or not _simple(outer.func):
            return None
        for i, a in enumerate(outer.args):
            h, m = self._helper_for(a, False)
            if h is None or h.kind not in ('STMT_RET', 'STRUCT'):
                continue
            if not all(_pure(b) for b in outer.args[:i]):
                return None
            body, ret = self._expand(h, m, st)
            if not isinstance(ret, ast.Name) and not _pure(ret):
                rn = '%s__result' % h.name.strip('_')
                body = body + [ast.copy_location(ast.Assign(targets=[ast.Name(id=rn, ctx=ast.Store())], value=ret), st)]
                ret = ast.Name(id=rn, ctx=ast.Load())
            outer.args[i] = ret
            for b in body:
                ast.fix_missing_locations(b)
            return body
        return None

    def visit_Expr(self, st):
        v = st.value
        gen_site = isinstance(v, ast.Yield) and v.value is not None
        call = v.value if gen_site else v
        h, m = self._helper_for(call, gen_site)
        if h is not None and h.kind in ('STMT', 'STMT_RET', 'STRUCT') and (not gen_site or self.caller_gen):
            body, ret = self._expand(h, m, st)
            return body or [ast.copy_location(ast.Pass(), st)]
        pre = self._hoist_arg(st, call if not gen_site else None)
        self.generic_visit(st)
        return (pre + [st]) if pre else st

    def visit_Assign(self, st):
        v = st.value
        gen_site = isinstance(v, ast.Yield) and v.value is not None
        call = v.value if gen_site else v
        h, m = self._helper_for(call, gen_site)
        if h is not None and h.kind in ('STMT_RET', 'STRUCT') and (not gen_site or self.caller_gen):
            body, ret = self._expand(h, m, st)
            return body + [ast.copy_location(ast.Assign(targets=st.targets, value=ret), st)]
        pre = self._hoist_arg(st, call if not gen_site else None)
        self.generic_visit(st)
        return (pre + [st]) if pre else st

    def visit_Return(self, st):
        v = st.value
        h, m = self._helper_for(v, False)
        if h is not None and h.kind in ('STMT_RET', 'STRUCT'):
            body, ret = self._expand(h, m, st)
            return body + [ast.copy_location(ast.Return(value=ret), st)]
        pre = self._hoist_arg(st, v)
        self.generic_visit(st)
        return (pre + [st]) if pre else st

    def visit_If(self, st):
        # `if [not] helper(args):` with a statement helper that returns a value: run the body first, test its result
        t = st.test
        neg = isinstance(t, ast.UnaryOp) and isinstance(t.op, ast.Not)
        call = t.operand if neg else t
        h, m = self._helper_for(call, False)
        if h is not None and h.kind in ('STMT_RET', 'STRUCT'):
            body, ret = self._expand(h, m, st)
            if not isinstance(ret, ast.Name):
                rn = '%s__result' % h.name.strip('_')
                body = body + [ast.copy_location(ast.Assign(targets=[ast.Name(id=rn, ctx=ast.Store())], value=ret), st)]
                ret = ast.Name(id=rn, ctx=ast.Load())
            st.test = ast.copy_location(ast.UnaryOp(op=ast.Not(), operand=ret) if neg else ret, t)
            self.generic_visit(st)
            for b in body:
                ast.fix_missing_locations(b)
            return body + [st]
        self.generic_visit(st)
        return st

    def visit_Call(self, node):
        self.generic_visit(node)
        h, m = self._helper_for(node, False)
        if h is not None and h.kind == 'EXPR':
            if any(not _pure(a) and h.uses.get(p, 0) > 1 for p, a in m.items()):
                return node
            body, ret = self._expand(h, m, node)
            return ret
        return node


def _functions_of(body):
    return [st for st in body if isinstance(st, (ast.FunctionDef, ast.AsyncFunctionDef))]


def _process_function(fn, scope, depth=0, known_nested=None):
    """inline into fn (and, recursively, into its nested functions with their own local helpers added to the scope)"""
    # cheap pre-filter: nothing to do unless fn mentions a helper in scope or defines nested functions
    wanted = set(k[1] for k in scope)
    hit = False
    for x in ast.walk(fn):
        if (isinstance(x, ast.Name) and x.id in wanted) or (isinstance(x, ast.Attribute) and x.attr in wanted) or \
                (isinstance(x, (ast.FunctionDef, ast.AsyncFunctionDef)) and x is not fn):
            hit = True
            break
    if not hit:
        return
    # local (nested) helpers of fn: referenced only as direct calls inside fn
    local_scope = dict(scope)
    nested = [st for st in ast.walk(fn) if isinstance(st, (ast.FunctionDef, ast.AsyncFunctionDef)) and st is not fn]
    direct = _functions_of(fn.body)
    for nf in direct:
        kind = _classify(nf, False, True, known_nested)
        if kind is None:
            continue
        # every reference to the name inside fn is the func of a call
        call_funcs = set(id(c.func) for c in ast.walk(fn) if isinstance(c, ast.Call))
        refs = [x for x in ast.walk(fn) if isinstance(x, ast.Name) and x.id == nf.name and isinstance(x.ctx, ast.Load)]
        if not refs or any(id(r) not in call_funcs for r in refs):
            continue
        # the helper may read fn's locals (closure): only safe when none of its own locals / params shadows them - renaming
        # takes care of its locals; free variables resolve the same at the call site because the site is inside fn itself
        h = _Helper(nf, kind, fn, False)
        local_scope[('f', nf.name)] = h
    caller_gen = any(_is_ic(d) for d in fn.decorator_list)
    inl = _Inliner(local_scope, caller_gen, depth)
    inl.root = fn
    for _ in range(3):
        inl.changed = False
        inl.visit(fn)
        if not inl.changed:
            break
    for nf in _functions_of_deep(fn):
        sub = _Inliner(local_scope, any(_is_ic(d) for d in nf.decorator_list), depth)
        sub.root = nf
        for _ in range(3):
            sub.changed = False
            sub.visit(nf)
            if not sub.changed:
                break
    # drop nested helpers that are no longer referenced
    for key, h in list(local_scope.items()):
        if h.owner is fn and h.inlined:
            if not any(isinstance(x, ast.Name) and x.id == h.name and isinstance(x.ctx, ast.Load) for x in ast.walk(fn)):
                _remove_def(fn, h.fn)
    ast.fix_missing_locations(fn)


def _functions_of_deep(fn):
    out = []
    stack = list(ast.iter_child_nodes(fn))
    while stack:
        n = stack.pop()
        if isinstance(n, (ast.FunctionDef, ast.AsyncFunctionDef)):
            out.append(n)
        if not isinstance(n, ast.ClassDef):
            stack.extend(ast.iter_child_nodes(n))
    return out


def _remove_def(owner, fn):
    for field in ('body', 'orelse', 'finalbody'):
        b = getattr(owner, field, None)
        if isinstance(b, list) and fn in b:
            b.remove(fn)
            if not b:
                b.append(ast.copy_location(ast.Pass(), fn))
            return True
    for ch in ast.iter_child_nodes(owner):
        if not isinstance(ch, (ast.FunctionDef, ast.AsyncFunctionDef, ast.ClassDef)) or ch is owner:
            if _remove_def(ch, fn):
                return True
    return False


def normalize_package(trees, ref=None):
    """trees: {module name: ast.Module}; rewritten in place.  Returns [(module, helper name, sites inlined, removed?)]."""
    log = []
    # a method is inlined only if no other class of its hierarchy defines the name (possible override): classes are related when
    # one names the other among its bases, directly or transitively, by simple name (conservative: any class with an unresolved
    # base expression that is not a plain dotted name is related to everything)
    classes = []
    for mname, tree in trees.items():
        for cls in [n for n in ast.walk(tree) if isinstance(n, ast.ClassDef)]:
            bases = []
            for b in cls.bases:
                d = ast.unparse(b)
                bases.append(d.split('.')[-1] if all(ch.isalnum() or ch in '._' for ch in d) else '*')
            classes.append((cls, bases, set(fn.name for fn in _functions_of(cls.body))))
    by_name = {}
    for cls, bases, meths in classes:
        by_name.setdefault(cls.name, []).append((cls, bases, meths))

    def ancestors(name, seen):
        out = set()
        for cls, bases, meths in by_name.get(name, []):
            for b in bases:
                if b == '*':
                    out.add('*')
                elif b not in seen:
                    seen.add(b)
                    out.add(b)
                    out |= ancestors(b, seen)
        return out
    anc = dict((cls.name, ancestors(cls.name, set([cls.name]))) for cls, _, _ in classes)
    method_defs = {}          # (class id, method name) -> number of definitions in the hierarchy of that class

    def related(a, b):
        return a == b or b in anc.get(a, ()) or a in anc.get(b, ()) or '*' in anc.get(a, ()) or '*' in anc.get(b, ())
    for cls, bases, meths in classes:
        for m in meths:
            method_defs[(id(cls), m)] = sum(1 for c2, _, m2 in classes if m in m2 and related(cls.name, c2.name))
    pkg_method_count = {}
    for cls_, bases_, meths_ in classes:
        for m_ in meths_:
            pkg_method_count[m_] = pkg_method_count.get(m_, 0) + 1
    helpers_by_module = {}
    for mname, tree in trees.items():
        mod_scope = {}
        rmod = (ref or {}).get(mname)
        for fn in _functions_of(tree.body):
            kind = _classify(fn, False, False, set(rmod['functions']) if rmod else None)
            if kind is not None:
                mod_scope[('f', fn.name)] = _Helper(fn, kind, tree, False)
        class_scopes = {}
        for cls in [n for n in tree.body if isinstance(n, ast.ClassDef)]:
            sc = {}
            for fn in _functions_of(cls.body):
                if method_defs.get((id(cls), fn.name), 0) != 1:
                    continue
                rcls = rmod['classes'].get(cls.name) if rmod else None
                kind = _classify(fn, True, False, (set(rcls['methods']) if rcls else set()) if rmod else None)
                if kind is not None:
                    sc[('m', fn.name)] = _Helper(fn, kind, cls, True)
            class_scopes[id(cls)] = sc
        helpers_by_module[mname] = (mod_scope, class_scopes)
        # a helper must be referenced only through direct calls (self.h(...) / h(...)): a bare reference (callback) keeps it
        call_funcs = set(id(c.func) for c in ast.walk(tree) if isinstance(c, ast.Call))
        for n in ast.walk(tree):
            if isinstance(n, ast.Name) and isinstance(n.ctx, ast.Load) and ('f', n.id) in mod_scope and id(n) not in call_funcs:
                mod_scope.pop(('f', n.id), None)
            if isinstance(n, ast.Attribute) and isinstance(n.ctx, ast.Load) and id(n) not in call_funcs:
                for sc in class_scopes.values():
                    sc.pop(('m', n.attr), None)
            if isinstance(n, ast.Attribute) and not (isinstance(n.value, ast.Name) and n.value.id == 'self'):
                # `other._h(...)`: fine when _h is defined by exactly one class in the whole package (then `other` is an instance
                # of that class) and this is a direct call on a simple receiver; anything else keeps the helper as it is
                if pkg_method_count.get(n.attr, 0) == 1 and id(n) in call_funcs and _simple(n.value):
                    continue
                for sc in class_scopes.values():
                    sc.pop(('m', n.attr), None)
        # package-unique method helpers can be inlined at `<receiver>._h(...)` sites anywhere in this module
        for sc in list(class_scopes.values()):
            for (k0, nm), h in list(sc.items()):
                if k0 == 'm' and pkg_method_count.get(nm, 0) == 1:
                    mod_scope[('x', nm)] = h
    # references from other modules (imports of a module-level helper, attribute uses of a method name) keep the helper as it is
    ext = {}
    for mname, tree in trees.items():
        names = set()
        for n in ast.walk(tree):
            if isinstance(n, ast.ImportFrom):
                names.update(al.name for al in n.names)
            elif isinstance(n, ast.Attribute) and not (isinstance(n.value, ast.Name) and n.value.id == 'self'):
                names.add(n.attr)       # (self.<name> in another module belongs to that module's own classes)
        ext[mname] = names
    for other, (mod_scope, class_scopes) in helpers_by_module.items():
        foreign = set()
        for mname, names in ext.items():
            if mname != other:
                foreign |= names
        for key in [k for k in mod_scope if k[1] in foreign]:
            mod_scope.pop(key, None)
        for sc in class_scopes.values():
            for key in [k for k in sc if k[1] in foreign]:
                sc.pop(key, None)
    for mname, tree in trees.items():
        mod_scope, class_scopes = helpers_by_module[mname]
        if not mod_scope and not any(class_scopes.values()) and not _has_nested_candidates(tree):
            continue
        rmod = (ref or {}).get(mname)
        for _round in (0, 1):
            for fn in _functions_of(tree.body):
                _process_function(fn, mod_scope, 0, set((rmod['nested'].get(fn.name) or {})) if rmod else None)
            for cls in [n for n in tree.body if isinstance(n, ast.ClassDef)]:
                sc = dict(mod_scope)
                sc.update(class_scopes.get(id(cls), {}))
                for fn in _functions_of(cls.body):
                    _process_function(fn, sc, 0, set((rmod['nested'].get(cls.name + '.' + fn.name) or {})) if rmod else None)
        # remove helpers without remaining references
        for key, h in list(mod_scope.items()):
            if key[0] == 'x':
                continue
            if h.inlined and not any(isinstance(x, ast.Name) and x.id == h.name and isinstance(x.ctx, ast.Load) for x in ast.walk(tree)):
                tree.body.remove(h.fn)
                log.append((mname, h.name, h.inlined, True))
            elif h.inlined:
                log.append((mname, h.name, h.inlined, False))
        for cls in [n for n in tree.body if isinstance(n, ast.ClassDef)]:
            for key, h in list(class_scopes.get(id(cls), {}).items()):
                if h.inlined and not any(isinstance(x, ast.Attribute) and x.attr == h.name for x in ast.walk(tree)):
                    cls.body.remove(h.fn)
                    log.append((mname, cls.name + '.' + h.name, h.inlined, True))
                elif h.inlined:
                    log.append((mname, cls.name + '.' + h.name, h.inlined, False))
        ast.fix_missing_locations(tree)
    return log


def _has_nested_candidates(tree):
    for fn in [n for n in ast.walk(tree) if isinstance(n, (ast.FunctionDef, ast.AsyncFunctionDef))]:
        for nf in _functions_of(fn.body):
            if nf.name not in anchors():
                return True
    return False


def propagate_constants(trees):
    """module-level `_NAME = <str / bytes / number literal>` (private or ALL_CAPS name no rule mentions, bound exactly once in the
    module, never declared global, not imported by another module) is written out at its uses inside that module's functions.
    -> [(module, name)]"""
    log = []
    imported = set()
    for tree in trees.values():
        for n in ast.walk(tree):
            if isinstance(n, ast.ImportFrom):
                imported.update(al.name for al in n.names)
            elif isinstance(n, ast.Attribute):
                imported.add(n.attr)
    for mname, tree in trees.items():
        cands = {}
        for st in tree.body:
            if isinstance(st, ast.Assign) and len(st.targets) == 1 and isinstance(st.targets[0], ast.Name) and isinstance(st.value, ast.Constant) \
                    and isinstance(st.value.value, (str, bytes, int, float)) and not isinstance(st.value.value, bool):
                nm = st.targets[0].id
                if (nm.startswith('_') or nm.isupper()) and not nm.startswith('__') and nm not in anchors() and nm not in imported:
                    cands[nm] = st
        if not cands:
            continue
        stores = {}
        for n in ast.walk(tree):
            if isinstance(n, ast.Name) and isinstance(n.ctx, (ast.Store, ast.Del)):
                stores[n.id] = stores.get(n.id, 0) + 1
            elif isinstance(n, ast.Global):
                for g in n.names:
                    stores[g] = stores.get(g, 0) + 10
            elif isinstance(n, ast.arg):
                stores[n.arg] = stores.get(n.arg, 0) + 10
        cands = dict((k, v) for k, v in cands.items() if stores.get(k, 0) == 1)
        if not cands:
            continue

        class _P(ast.NodeTransformer):
            def visit_Name(self, node):
                if isinstance(node.ctx, ast.Load) and node.id in cands:
                    used.add(node.id)
                    return ast.copy_location(copy.deepcopy(cands[node.id].value), node)
                return node
        used = set()
        for st in tree.body:
            if isinstance(st, (ast.FunctionDef, ast.AsyncFunctionDef, ast.ClassDef)):
                _P().visit(st)
        for nm in sorted(used):
            log.append((mname, nm))
        ast.fix_missing_locations(tree)
    return log


class _Desugar(ast.NodeTransformer):
    """statement-level rewrites into the spelling the rules know (each is an identity on behaviour):
         x.extend([a, b])        ->  x.append(a); x.append(b)            (list / tuple literal argument)
         a, b = e1, e2           ->  a = e1; b = e2                      (when no target is read by a later right-hand side)
    """

    def __init__(self):
        self.count = 0

    def visit_For(self, st):
        self.generic_visit(st)
        # for v in chain([a, b], rest): body   ->   body[v:=a]; body[v:=b]; for v in rest: body      (itertools.chain with a literal head)
        it = st.iter
        if isinstance(it, ast.Call) and (ast.unparse(it.func) in ('chain', 'itertools.chain')) and len(it.args) == 2 and not it.keywords and not st.orelse \
                and isinstance(it.args[0], (ast.List, ast.Tuple)) and it.args[0].elts and len(it.args[0].elts) <= 3 and isinstance(st.target, ast.Name) \
                and all(_simple(e) for e in it.args[0].elts) and _simple(it.args[1]) \
                and not any(isinstance(x, (ast.Break, ast.Continue, ast.Return, ast.FunctionDef, ast.Lambda)) for b in st.body for x in ast.walk(b)) \
                and not any(isinstance(x, ast.Name) and x.id == st.target.id and isinstance(x.ctx, ast.Store) for b in st.body for x in ast.walk(b)):
            self.count += 1
            out = []
            for e in it.args[0].elts:
                for b in st.body:
                    out.append(ast.copy_location(_subst_names(b, {st.target.id: e}), st))
            st.iter = it.args[1]
            out.append(st)
            for o in out:
                ast.fix_missing_locations(o)
            return out
        return st

    def visit_Expr(self, st):
        c = st.value
        # d.pop(k)  as a statement (value unused, no default)   ->   del d[k]
        if isinstance(c, ast.Call) and isinstance(c.func, ast.Attribute) and c.func.attr == 'pop' and len(c.args) == 1 and not c.keywords and _simple(c.func.value) \
                and isinstance(c.func.value, ast.Attribute) and not isinstance(c.args[0], ast.Constant):
            self.count += 1
            d = ast.Delete(targets=[ast.Subscript(value=c.func.value, slice=c.args[0], ctx=ast.Del())])
            ast.copy_location(d, st)
            ast.fix_missing_locations(d)
            return d
        if isinstance(c, ast.Call) and isinstance(c.func, ast.Attribute) and c.func.attr == 'extend' and len(c.args) == 1 and not c.keywords \
                and isinstance(c.args[0], (ast.List, ast.Tuple)) and c.args[0].elts and not any(isinstance(e, ast.Starred) for e in c.args[0].elts) \
                and _simple(c.func.value):
            self.count += 1
            out = []
            for e in c.args[0].elts:
                call = ast.Call(func=ast.Attribute(value=copy.deepcopy(c.func.value), attr='append', ctx=ast.Load()), args=[e], keywords=[])
                out.append(ast.copy_location(ast.Expr(value=call), st))
            for o in out:
                ast.fix_missing_locations(o)
            return out
        return st

    def visit_Assign(self, st):
        v = st.value
        if len(st.targets) == 1 and isinstance(st.targets[0], ast.Name) and isinstance(v, ast.ListComp) and len(v.generators) == 2 \
                and not any(g_.ifs or g_.is_async for g_ in v.generators) and isinstance(v.generators[1].iter, (ast.Tuple, ast.List)) \
                and isinstance(v.generators[1].target, ast.Name) and isinstance(v.elt, ast.Name) and v.elt.id == v.generators[1].target.id \
                and v.generators[1].iter.elts and not any(isinstance(e, ast.Starred) for e in v.generators[1].iter.elts) \
                and not any(isinstance(x, ast.Name) and x.id == st.targets[0].id for x in ast.walk(v)):
            # xs = [y for a in A for y in (e1, e2)]   ->   xs = []; for a in A: xs.append(e1); xs.append(e2)
            self.count += 1
            nm = st.targets[0].id
            body = [ast.Expr(value=ast.Call(func=ast.Attribute(value=ast.Name(id=nm, ctx=ast.Load()), attr='append', ctx=ast.Load()), args=[e], keywords=[]))
                    for e in v.generators[1].iter.elts]
            out = [ast.Assign(targets=[ast.Name(id=nm, ctx=ast.Store())], value=ast.List(elts=[], ctx=ast.Load())),
                   ast.For(target=v.generators[0].target, iter=v.generators[0].iter, body=body, orelse=[], type_comment=None)]
            for o in out:
                ast.copy_location(o, st)
                ast.fix_missing_locations(o)
            return out
        if len(st.targets) == 1 and isinstance(st.targets[0], ast.Tuple) and isinstance(st.value, ast.Tuple) and len(st.targets[0].elts) == len(st.value.elts) \
                and not any(isinstance(e, ast.Starred) for e in st.targets[0].elts + st.value.elts):
            tg, vs = st.targets[0].elts, st.value.elts
            texts = [ast.unparse(t) for t in tg]
            ok = True
            for i, t in enumerate(texts):
                for v in vs[i + 1:]:
                    if any(ast.unparse(x) == t for x in ast.walk(v) if isinstance(x, (ast.Name, ast.Attribute, ast.Subscript))):
                        ok = False
                # a target that is a prefix of a later read (self.x vs self.x.y) counts too
                for v in vs[i + 1:]:
                    if any((ast.unparse(x) + '.').startswith(t + '.') for x in ast.walk(v) if isinstance(x, ast.Attribute)):
                        ok = False
            if ok:
                self.count += 1
                out = [ast.copy_location(ast.Assign(targets=[t], value=v), st) for t, v in zip(tg, vs)]
                for o in out:
                    ast.fix_missing_locations(o)
                return out
        return st


def _string_builders(fn):
    """`parts = [a]; parts.append(b); parts.extend(f(x) for x in xs); s = ' '.join(parts)`  ->  `s = a; s += ' ' + b; for x in xs: s += ' ' + f(x)`
    for a local list that is only ever built that way and joined once (by a constant separator) after the last addition."""
    count = 0
    own = []
    stack = list(fn.body)
    while stack:
        n = stack.pop()
        own.append(n)
        if isinstance(n, (ast.FunctionDef, ast.AsyncFunctionDef, ast.Lambda, ast.ClassDef)):
            continue
        stack.extend(ast.iter_child_nodes(n))
    inits = {}
    for n in own:
        if isinstance(n, ast.Assign) and len(n.targets) == 1 and isinstance(n.targets[0], ast.Name) and isinstance(n.value, ast.List) and n.value.elts \
                and not any(isinstance(e, ast.Starred) for e in n.value.elts):
            inits.setdefault(n.targets[0].id, []).append(n)
    for L, ins in inits.items():
        if len(ins) != 1:
            continue
        uses = [n for n in own if isinstance(n, ast.Name) and n.id == L]
        stores = [u for u in uses if isinstance(u.ctx, ast.Store)]
        if len(stores) != 1:
            continue
        adds, joins, other = [], [], 0
        for st in own:
            if isinstance(st, ast.Expr) and isinstance(st.value, ast.Call) and isinstance(st.value.func, ast.Attribute) and isinstance(st.value.func.value, ast.Name) \
                    and st.value.func.value.id == L and len(st.value.args) == 1 and not st.value.keywords:
                if st.value.func.attr == 'append':
                    adds.append(st)
                elif st.value.func.attr == 'extend' and isinstance(st.value.args[0], (ast.ListComp, ast.GeneratorExp)) and len(st.value.args[0].generators) == 1:
                    adds.append(st)
            if isinstance(st, ast.Assign) and len(st.targets) == 1 and isinstance(st.targets[0], ast.Name) and isinstance(st.value, ast.Call) \
                    and isinstance(st.value.func, ast.Attribute) and st.value.func.attr == 'join' and isinstance(st.value.func.value, ast.Constant) \
                    and isinstance(st.value.func.value.value, str) and len(st.value.args) == 1 and isinstance(st.value.args[0], ast.Name) and st.value.args[0].id == L:
                joins.append(st)
        loads = [u for u in uses if isinstance(u.ctx, ast.Load)]
        if not joins and len(loads) == len(adds) + 1:
            # joined in place, inside a larger statement at the top level of fn: f(' '.join(parts)) -> parts__joined = ' '.join(parts); f(parts__joined)
            for i_, st in enumerate(fn.body):
                hit = [x for x in ast.walk(st) if isinstance(x, ast.Call) and isinstance(x.func, ast.Attribute) and x.func.attr == 'join' and isinstance(x.func.value, ast.Constant)
                       and isinstance(x.func.value.value, str) and len(x.args) == 1 and isinstance(x.args[0], ast.Name) and x.args[0].id == L]
                if len(hit) == 1 and not isinstance(st, (ast.For, ast.While, ast.If, ast.With, ast.Try, ast.FunctionDef, ast.AsyncFunctionDef)):
                    S_ = '%s__joined' % L
                    jn = ast.copy_location(ast.Assign(targets=[ast.Name(id=S_, ctx=ast.Store())], value=copy.deepcopy(hit[0])), st)
                    ast.fix_missing_locations(jn)

                    class _J(ast.NodeTransformer):
                        def visit_Call(self, node):
                            if node is hit[0]:
                                return ast.copy_location(ast.Name(id=S_, ctx=ast.Load()), node)
                            self.generic_visit(node)
                            return node
                    _J().visit(st)
                    fn.body.insert(i_, jn)
                    joins = [jn]
                    own = []
                    stack = list(fn.body)
                    while stack:
                        n_ = stack.pop()
                        own.append(n_)
                        if isinstance(n_, (ast.FunctionDef, ast.AsyncFunctionDef, ast.Lambda, ast.ClassDef)):
                            continue
                        stack.extend(ast.iter_child_nodes(n_))
                    break
        if len(joins) != 1 or len(loads) != len(adds) + 1:
            continue
        J = joins[0]
        S = J.targets[0].id
        if any(isinstance(n, ast.Name) and n.id == S and n is not J.targets[0] and isinstance(n.ctx, ast.Store) for n in own):
            continue
        if J not in fn.body or any(a.lineno >= J.lineno for a in adds) or ins[0].lineno >= J.lineno:
            continue
        if any(isinstance(n, ast.Name) and n.id == S and isinstance(n.ctx, ast.Load) and n.lineno < J.lineno for n in own):
            continue
        sep = J.value.func.value.value

        def plus(x):
            # the separator is folded into a leading literal where there is one ('Port={}'.format(p) -> ' Port={}'.format(p))
            if '{' not in sep and '%' not in sep:
                if isinstance(x, ast.Call) and isinstance(x.func, ast.Attribute) and x.func.attr == 'format' and isinstance(x.func.value, ast.Constant) \
                        and isinstance(x.func.value.value, str):
                    y = copy.deepcopy(x)
                    y.func.value = ast.Constant(value=sep + x.func.value.value)
                    return y
                if isinstance(x, ast.BinOp) and isinstance(x.op, ast.Mod) and isinstance(x.left, ast.Constant) and isinstance(x.left.value, str):
                    y = copy.deepcopy(x)
                    y.left = ast.Constant(value=sep + x.left.value)
                    return y
                if isinstance(x, ast.Constant) and isinstance(x.value, str):
                    return ast.Constant(value=sep + x.value)
            return ast.BinOp(left=ast.Constant(value=sep), op=ast.Add(), right=x)
        init = ins[0]
        e = init.value.elts[0]
        for x in init.value.elts[1:]:
            e = ast.BinOp(left=e, op=ast.Add(), right=plus(x))
        init.targets = [ast.Name(id=S, ctx=ast.Store())]
        init.value = e

        class _R(ast.NodeTransformer):
            def visit_Expr(self, st):
                if st in adds:
                    a = st.value.args[0]
                    if st.value.func.attr == 'append':
                        return ast.copy_location(ast.AugAssign(target=ast.Name(id=S, ctx=ast.Store()), op=ast.Add(), value=plus(a)), st)
                    g = a.generators[0]
                    body = [ast.AugAssign(target=ast.Name(id=S, ctx=ast.Store()), op=ast.Add(), value=plus(a.elt))]
                    for cond in reversed(g.ifs):
                        body = [ast.If(test=cond, body=body, orelse=[])]
                    return ast.copy_location(ast.For(target=g.target, iter=g.iter, body=body, orelse=[]), st)
                return st

            def visit_Assign(self, st):
                if st is J:
                    return ast.copy_location(ast.Pass(), st)
                return st

            def visit_FunctionDef(self, node):
                if node is fn:
                    self.generic_visit(node)
                return node
            visit_AsyncFunctionDef = visit_FunctionDef
        _R().visit(fn)
        ast.fix_missing_locations(fn)
        count += 1
    return count


def desugar(trees):
    n = 0
    for tree in trees.values():
        d = _Desugar()
        d.visit(tree)
        n += d.count
        for fn in [x for x in ast.walk(tree) if isinstance(x, (ast.FunctionDef, ast.AsyncFunctionDef))]:
            n += _string_builders(fn)
        ast.fix_missing_locations(tree)
    return n


PURE_BUILTINS = ('max', 'min', 'str', 'int', 'float', 'bool', 'abs', 'repr', 'isinstance')
PURE_METHODS = ('total_seconds', 'split', 'rsplit', 'strip', 'lstrip', 'rstrip', 'lower', 'upper', 'encode', 'decode', 'startswith', 'endswith',
                'format', 'partition', 'rpartition', 'replace', 'isdigit')


def _safe_pure(e, fn, stable_names, vararg, top=True):
    """an expression whose value cannot differ between the point of definition and any later use in fn: constants, stable names
    (parameters / single-assignment locals), attribute chains nothing in fn assigns, constant subscripts of the *args tuple,
    arithmetic / comparisons / pure builtins / whitelisted read-only methods over those"""
    if isinstance(e, ast.Constant):
        return True
    if isinstance(e, ast.Name):
        return e.id in stable_names or e.id in PURE_BUILTINS
    if isinstance(e, ast.Attribute):
        if not top:
            return False          # reading a field inside a larger expression: its value / contents may change before the use
        chain = ast.unparse(e)
        root = e
        while isinstance(root, ast.Attribute):
            root = root.value
        if not isinstance(root, ast.Name) or not (root.id in stable_names or root.id == 'self'):
            return False
        for x in ast.walk(fn):
            if isinstance(x, ast.Attribute) and isinstance(x.ctx, (ast.Store, ast.Del)):
                t = ast.unparse(x)
                if t == chain or chain.startswith(t + '.'):
                    return False
        return True
    if isinstance(e, ast.Subscript):
        if not (isinstance(e.value, ast.Name) and isinstance(e.slice, ast.Constant)):
            return False
        if e.value.id == vararg:
            return True
        # an element of a local list / tuple that fn never changes after building it: no item store, no mutating method, never
        # handed to a callee as a whole (spreading it with * copies)
        nm = e.value.id
        if nm not in stable_names:
            return False
        for x in ast.walk(fn):
            if isinstance(x, ast.Subscript) and isinstance(x.ctx, (ast.Store, ast.Del)) and isinstance(x.value, ast.Name) and x.value.id == nm:
                return False
            if isinstance(x, ast.Call):
                if isinstance(x.func, ast.Attribute) and isinstance(x.func.value, ast.Name) and x.func.value.id == nm and x.func.attr not in PURE_METHODS:
                    return False
                if any(isinstance(a, ast.Name) and a.id == nm for a in x.args) or any(isinstance(k.value, ast.Name) and k.value.id == nm for k in x.keywords):
                    return False
            if isinstance(x, ast.AugAssign) and isinstance(x.target, ast.Name) and x.target.id == nm:
                return False
        return True
    if isinstance(e, ast.BinOp):
        return _safe_pure(e.left, fn, stable_names, vararg, False) and _safe_pure(e.right, fn, stable_names, vararg, False)
    if isinstance(e, ast.UnaryOp):
        return _safe_pure(e.operand, fn, stable_names, vararg, False)
    if isinstance(e, ast.BoolOp):
        return all(_safe_pure(v, fn, stable_names, vararg, False) for v in e.values)
    if isinstance(e, ast.Compare):
        if any(isinstance(o, (ast.In, ast.NotIn)) for o in e.ops):
            return False      # membership reads the container's contents
        return _safe_pure(e.left, fn, stable_names, vararg, False) and all(_safe_pure(c, fn, stable_names, vararg, False) for c in e.comparators)
    if isinstance(e, ast.IfExp):
        return all(_safe_pure(x, fn, stable_names, vararg, False) for x in (e.test, e.body, e.orelse))
    if isinstance(e, ast.Tuple):
        return all(_safe_pure(x, fn, stable_names, vararg, False) for x in e.elts)
    if isinstance(e, ast.Call) and not e.keywords and not any(isinstance(a, ast.Starred) for a in e.args):
        if isinstance(e.func, ast.Name) and e.func.id in PURE_BUILTINS:
            return all(_safe_pure(a, fn, stable_names, vararg, False) for a in e.args)
        if isinstance(e.func, ast.Attribute) and e.func.attr in PURE_METHODS and _safe_pure(e.func.value, fn, stable_names, vararg, False) \
                and not isinstance(e.func.value, ast.Attribute):
            return all(_safe_pure(a, fn, stable_names, vararg, False) for a in e.args)
    return False


def _own_nodes_list(fn):
    out = []
    stack = list(fn.body)
    while stack:
        n = stack.pop()
        out.append(n)
        if isinstance(n, (ast.FunctionDef, ast.AsyncFunctionDef, ast.Lambda, ast.ClassDef)):
            continue
        stack.extend(ast.iter_child_nodes(n))
    return out


def _blocks(fn):
    """every statement list of fn's own scope"""
    out = []
    stack = [fn]
    while stack:
        n = stack.pop()
        for field in ('body', 'orelse', 'finalbody'):
            b = getattr(n, field, None)
            if isinstance(b, list) and b and isinstance(b[0], ast.stmt):
                out.append(b)
                for st in b:
                    if not isinstance(st, (ast.FunctionDef, ast.AsyncFunctionDef, ast.ClassDef)):
                        stack.append(st)
        if isinstance(n, ast.Try):
            for h in n.handlers:
                out.append(h.body)
                stack.extend(h.body)
    return out


def undo_extracted_locals(trees, ref):
    """`extract variable` undone for locals the reference tree does not know (refnames.json: 'locals'): a NEW local that is
    assigned exactly once is written out again at its uses when
      (A) its value is safe-pure (see _safe_pure): every use is replaced, the assignment dropped; or
      (B) it is used exactly once, in the statement directly after its assignment (same block), outside any loop body /
          comprehension / lambda of that statement: the value moves to the use.
    Locals the reference tree has keep their names and definitions (the rules know them by role).  -> [(module, function, name)]"""
    from .canon import function_locals
    log = []
    for mname, tree in trees.items():
        known = (ref.get(mname) or {}).get('locals')
        if known is None:
            continue
        fns = []

        def collect(node, prefix):
            for st in ast.iter_child_nodes(node):
                if isinstance(st, ast.ClassDef):
                    collect(st, prefix + st.name + '.')
                elif isinstance(st, (ast.FunctionDef, ast.AsyncFunctionDef)):
                    fns.append((prefix + st.name, st))
                    collect(st, prefix + st.name + '.')
                elif not isinstance(st, ast.Lambda):
                    collect(st, prefix)
        collect(tree, '')
        for q, fn in fns:
            if q not in known:
                continue                      # a new function: the helper inliner deals with it
            ref_locals = set(known[q])          # (a dict name -> features; renamed locals were mapped back by canon.canonicalise_locals)
            for _round in range(4):
                own = _own_nodes_list(fn)
                stores = {}
                for x in own:
                    if isinstance(x, ast.Name) and isinstance(x.ctx, (ast.Store, ast.Del)):
                        stores[x.id] = stores.get(x.id, 0) + 1
                    elif isinstance(x, ast.ExceptHandler) and x.name:
                        stores[x.name] = stores.get(x.name, 0) + 5
                    elif isinstance(x, (ast.Global, ast.Nonlocal)):
                        for g_ in x.names:
                            stores[g_] = stores.get(g_, 0) + 5
                params = set(a.arg for a in ast.walk(fn.args) if isinstance(a, ast.arg))
                vararg = fn.args.vararg.arg if fn.args.vararg else None
                stable = set(params) | set(k for k, v in stores.items() if v == 1)
                stable -= set(k for k in params if stores.get(k))
                # names also bound in nested scopes of fn (closures may rebind via nonlocal) are left alone
                done = False
                for block in _blocks(fn):
                    for i, st in enumerate(block):
                        if not (isinstance(st, ast.Assign) and len(st.targets) == 1 and isinstance(st.targets[0], ast.Name)):
                            continue
                        nm = st.targets[0].id
                        if nm in ref_locals or nm in params or stores.get(nm) != 1:
                            continue
                        if isinstance(st.value, (ast.Yield, ast.YieldFrom, ast.Await)) or any(isinstance(x, (ast.Yield, ast.YieldFrom, ast.Await, ast.Lambda)) for x in ast.walk(st.value)):
                            continue
                        uses = [x for x in ast.walk(fn) if isinstance(x, ast.Name) and x.id == nm and isinstance(x.ctx, ast.Load)]
                        own_uses = [x for x in own if isinstance(x, ast.Name) and x.id == nm and isinstance(x.ctx, ast.Load)]
                        if len(uses) != len(own_uses) or not uses:
                            continue          # captured by a nested function, or never used
                        mode = None
                        if _safe_pure(st.value, fn, stable - set([nm]), vararg):
                            mode = 'A'
                        elif len(uses) == 1 and i + 1 < len(block):
                            nxt = block[i + 1]
                            inside = [x for x in ast.walk(nxt) if x is uses[0]]
                            if inside:
                                # not under a loop body / comprehension / lambda of the next statement
                                bad = False
                                if isinstance(nxt, (ast.For, ast.AsyncFor)):
                                    bad = not any(x is uses[0] for x in ast.walk(nxt.iter))
                                elif isinstance(nxt, ast.While):
                                    bad = True
                                elif isinstance(nxt, (ast.If, ast.With, ast.Try, ast.FunctionDef, ast.AsyncFunctionDef, ast.ClassDef)):
                                    hdr = [nxt.test] if isinstance(nxt, ast.If) else [it.context_expr for it in nxt.items] if isinstance(nxt, ast.With) else []
                                    bad = not any(x is uses[0] for h in hdr for x in ast.walk(h))
                                for c_ in ast.walk(nxt):
                                    if isinstance(c_, (ast.ListComp, ast.SetComp, ast.DictComp, ast.GeneratorExp)):
                                        # the first iterable of a comprehension is evaluated once, immediately: fine; anything else is not
                                        inner = [x for g_ in c_.generators[1:] for x in ast.walk(g_)] + [x for x in ast.walk(c_.elt if not isinstance(c_, ast.DictComp) else c_.key)] + \
                                                [x for g_ in c_.generators for i_ in g_.ifs for x in ast.walk(i_)] + [x for x in ast.walk(c_.generators[0].target)]
                                        if any(x is uses[0] for x in inner):
                                            bad = True
                                    elif isinstance(c_, ast.Lambda) and any(x is uses[0] for x in ast.walk(c_)):
                                        bad = True
                                if not bad:
                                    mode = 'B'
                        if mode is None:
                            continue
                        val = st.value

                        class _S(ast.NodeTransformer):
                            def visit_Name(self, node):
                                if node.id == nm and isinstance(node.ctx, ast.Load):
                                    return ast.copy_location(copy.deepcopy(val), node)
                                return node
                        _S().visit(fn)
                        block[i] = ast.copy_location(ast.Pass(), st)
                        log.append((mname, q, nm, mode))
                        done = True
                        break
                    if done:
                        break
                if not done:
                    break
            ast.fix_missing_locations(fn)
    return log


def desugar_namedtuples(trees):
    """a private module-level `_T = namedtuple('_T', 'a b c')` is only a spelling of the tuple (a, b, c): constructor calls become
    tuple displays and reads of a field become constant subscripts - provided the field name is used for nothing else in the
    package (never assigned as an attribute, not a method / class attribute name).  -> [(module, type name, fields)]"""
    log = []
    stored, defined = set(), set()
    for tree in trees.values():
        for n in ast.walk(tree):
            if isinstance(n, ast.Attribute) and isinstance(n.ctx, (ast.Store, ast.Del)):
                stored.add(n.attr)
            elif isinstance(n, (ast.FunctionDef, ast.AsyncFunctionDef, ast.ClassDef)):
                defined.add(n.name)
            elif isinstance(n, ast.ClassDef):
                pass
        for cls in [x for x in ast.walk(tree) if isinstance(x, ast.ClassDef)]:
            for st in cls.body:
                if isinstance(st, ast.Assign):
                    defined.update(t.id for t in st.targets if isinstance(t, ast.Name))
    for mname, tree in trees.items():
        types = {}
        for st in tree.body:
            if isinstance(st, ast.Assign) and len(st.targets) == 1 and isinstance(st.targets[0], ast.Name) and isinstance(st.value, ast.Call):
                f = ast.unparse(st.value.func)
                if f.split('.')[-1] == 'namedtuple' and len(st.value.args) == 2 and not st.value.keywords:
                    spec = st.value.args[1]
                    fields = None
                    if isinstance(spec, ast.Constant) and isinstance(spec.value, str):
                        fields = spec.value.replace(',', ' ').split()
                    elif isinstance(spec, (ast.List, ast.Tuple)) and all(isinstance(e, ast.Constant) and isinstance(e.value, str) for e in spec.elts):
                        fields = [e.value for e in spec.elts]
                    if fields and st.targets[0].id.startswith('_') and not all(f_ in stored or f_ in defined for f_ in fields):
                        types[st.targets[0].id] = fields
        if not types:
            continue
        # a field name shared by two such types with different positions is ambiguous
        pos = {}
        for tn, fields in types.items():
            for i, f_ in enumerate(fields):
                pos.setdefault(f_, set()).add(i)
        fieldpos = dict((f_, list(p_)[0]) for f_, p_ in pos.items() if len(p_) == 1)
        # a field name that is also an ordinary attribute somewhere (self.defer) is rewritten only on receivers that are read
        # through an unambiguous field of the same type elsewhere (self.command.line_cb makes self.command a record)
        shared = set(f_ for f_ in fieldpos if f_ in stored or f_ in defined)
        records = set()
        for other in trees.values():
            for n in ast.walk(other):
                if isinstance(n, ast.Attribute) and isinstance(n.ctx, ast.Load) and n.attr in fieldpos and n.attr not in shared:
                    records.add(ast.unparse(n.value))

        class _T(ast.NodeTransformer):
            def visit_Call(self, node):
                self.generic_visit(node)
                if isinstance(node.func, ast.Name) and node.func.id in types and not any(isinstance(a, ast.Starred) for a in node.args) \
                        and not any(k.arg is None for k in node.keywords):
                    fields = types[node.func.id]
                    vals = dict(zip(fields, node.args))
                    for k in node.keywords:
                        vals[k.arg] = k.value
                    if set(vals) == set(fields):
                        return ast.copy_location(ast.Tuple(elts=[vals[f_] for f_ in fields], ctx=ast.Load()), node)
                return node

            def visit_Attribute(self, node):
                self.generic_visit(node)
                if isinstance(node.ctx, ast.Load) and node.attr in fieldpos and (node.attr not in shared or ast.unparse(node.value) in records):
                    return ast.copy_location(ast.Subscript(value=node.value, slice=ast.Constant(value=fieldpos[node.attr]), ctx=ast.Load()), node)
                return node
        for other in trees.values():
            _T().visit(other)
            ast.fix_missing_locations(other)
        for tn, fields in types.items():
            log.append((mname, tn, fields))
    return log


def force_inline(caller_fn, helper_fn, method=True):
    """a copy of caller_fn in which the calls of helper_fn (a method called as self.<name>(...) when `method`) are inlined, whatever
    the helper is called and whether or not a rule mentions it; None if the helper's shape is not one the inliner handles.  For
    rules that describe a pair of functions one of which may delegate to the other (SingleObserver.when_fired / already_fired)."""
    body = list(helper_fn.body)
    if body and isinstance(body[0], ast.Expr) and isinstance(body[0].value, ast.Constant):
        body = body[1:]
    rets = [x for b in body for x in ast.walk(b) if isinstance(x, ast.Return)]
    if not rets:
        kind = 'STMT'
    elif len(rets) == 1 and rets[0] is body[-1] and rets[0].value is not None:
        kind = 'EXPR' if len(body) == 1 else 'STMT_RET'
    elif _structure([copy.deepcopy(b) for b in body], '_r') is not None:
        kind = 'STRUCT'
    else:
        return None
    a = helper_fn.args
    if a.vararg or a.kwarg or a.kwonlyargs or a.defaults:
        return None
    h = _Helper(helper_fn, kind, None, method)
    fn = copy.deepcopy(caller_fn)
    inl = _Inliner({('m' if method else 'f', helper_fn.name): h}, False)
    inl.root = fn
    inl.visit(fn)
    if not h.inlined:
        return None
    ast.fix_missing_locations(fn)
    return fn



def deproperty(trees, ref):
    """A *private* read-only property the reference does not have as a property (new, or a method turned into one) is seen as the
    method it stands for: the decorator is dropped and every plain read `x._name` in the module becomes the call `x._name()`.
    Nothing else changes, so the body is evaluated at the same moments; afterwards the usual pairing / inlining applies."""
    done = []
    for mname, tree in trees.items():
        rm = (ref or {}).get(mname, {}).get('classes', {})
        names = {}
        stored = set()
        for n in ast.walk(tree):
            if isinstance(n, ast.Attribute) and isinstance(n.ctx, (ast.Store, ast.Del)):
                stored.add(n.attr)
        for cls in [c for c in tree.body if isinstance(c, ast.ClassDef)]:
            setters = set()
            for fn in cls.body:
                if isinstance(fn, ast.FunctionDef):
                    for d in fn.decorator_list:
                        if isinstance(d, ast.Attribute) and d.attr in ('setter', 'deleter') and isinstance(d.value, ast.Name):
                            setters.add(d.value.id)
            for fn in cls.body:
                if not isinstance(fn, ast.FunctionDef) or not fn.name.startswith('_') or fn.name.startswith('__'):
                    continue
                if not any(isinstance(d, ast.Name) and d.id == 'property' for d in fn.decorator_list) or len(fn.decorator_list) != 1:
                    continue
                if fn.name in setters or fn.name in stored or len(fn.args.args) != 1:
                    continue
                if fn.name in rm.get(cls.name, {}).get('props', ()):
                    continue
                names.setdefault(fn.name, []).append((cls, fn))
        if not names:
            continue
        for nm, sites in names.items():
            for cls, fn in sites:
                fn.decorator_list = []
                done.append((mname, cls.name + '.' + nm))

        class T(ast.NodeTransformer):
            def visit_Call(self, node):
                # already a call of something else: visit the parts, but leave a direct `x._name(...)` alone (cannot occur for a property)
                node.args = [self.visit(a) for a in node.args]
                node.keywords = [self.visit(k) for k in node.keywords]
                if isinstance(node.func, ast.Attribute) and node.func.attr in names:
                    inner = ast.Call(func=ast.Attribute(value=self.visit(node.func.value), attr=node.func.attr, ctx=ast.Load()), args=[], keywords=[])
                    node.func = ast.copy_location(inner, node.func)
                else:
                    node.func = self.visit(node.func)
                return node

            def visit_Attribute(self, node):
                node.value = self.visit(node.value)
                if node.attr in names and isinstance(node.ctx, ast.Load):
                    return ast.copy_location(ast.Call(func=node, args=[], keywords=[]), node)
                return node
        T().visit(tree)
        ast.fix_missing_locations(tree)
    return done



def _subst_names(node, mapping):
    class S(ast.NodeTransformer):
        def visit_Name(self, n):
            if isinstance(n.ctx, ast.Load) and n.id in mapping:
                return copy.deepcopy(mapping[n.id])
            return n
    return S().visit(copy.deepcopy(node))


def _bind_target(target, value):
    """{name: expr} for binding a (possibly nested tuple) target to a literal value expression, or None"""
    if isinstance(target, ast.Name):
        return {target.id: value}
    if isinstance(target, (ast.Tuple, ast.List)) and isinstance(value, (ast.Tuple, ast.List)) and len(target.elts) == len(value.elts) \
            and not any(isinstance(e, ast.Starred) for e in list(target.elts) + list(value.elts)):
        out = {}
        for t, v in zip(target.elts, value.elts):
            b = _bind_target(t, v)
            if b is None:
                return None
            out.update(b)
        return out
    return None


def unroll_literal_tables(trees):
    """Registration written as data is seen as the statements it stands for:
         [f(a, b) for (a, b) in [(x1, y1), (x2, y2)]]      ->  [f(x1, y1), f(x2, y2)]      (no condition, literal rows)
         for (s, rows) in TABLE: s.add(rows)               ->  one copy of the body per row (TABLE a literal list of tuples, possibly a
                                                               local bound once just before; body without break/continue/return)
       Only tables of *tuples* are unrolled (a row per registration), at most 16 rows, and only when every row element is a pure
       expression, so evaluation order and effects are unchanged."""
    n = 0

    def literal_rows(e):
        if isinstance(e, (ast.List, ast.Tuple)) and e.elts and len(e.elts) <= 16 and all(isinstance(r, (ast.Tuple, ast.List)) for r in e.elts):
            return e.elts
        return None

    def rows_pure(rows):
        for r in rows:
            for x in ast.walk(r):
                if isinstance(x, (ast.Call, ast.Yield, ast.YieldFrom, ast.Await, ast.NamedExpr)):
                    return False
        return True

    class Comp(ast.NodeTransformer):
        def visit_ListComp(self, node):
            self.generic_visit(node)
            nonlocal n
            if len(node.generators) == 1 and not node.generators[0].ifs and not node.generators[0].is_async:
                g = node.generators[0]
                rows = literal_rows(g.iter)
                if rows is not None and rows_pure(rows):
                    elts = []
                    for r in rows:
                        b = _bind_target(g.target, r)
                        if b is None:
                            return node
                        elts.append(_subst_names(node.elt, b))
                    n += 1
                    return ast.copy_location(ast.List(elts=elts, ctx=ast.Load()), node)
            return node

    def unroll_block(stmts, fn):
        nonlocal n
        out = []
        for i, st in enumerate(stmts):
            for fld in ('body', 'orelse', 'finalbody'):
                if isinstance(getattr(st, fld, None), list) and not isinstance(st, (ast.FunctionDef, ast.AsyncFunctionDef, ast.ClassDef)):
                    setattr(st, fld, unroll_block(getattr(st, fld), fn))
            for h in getattr(st, 'handlers', []) or []:
                h.body = unroll_block(h.body, fn)
            if isinstance(st, ast.For) and not st.orelse:
                it = st.iter
                drop = None
                if isinstance(it, ast.Name) and out and isinstance(out[-1], ast.Assign) and len(out[-1].targets) == 1 and isinstance(out[-1].targets[0], ast.Name) \
                        and out[-1].targets[0].id == it.id:
                    uses = sum(1 for x in ast.walk(fn) if isinstance(x, ast.Name) and x.id == it.id)
                    if uses == 2:
                        drop, it = out[-1], out[-1].value
                rows = literal_rows(it)
                if rows is not None and rows_pure(rows) and not any(isinstance(x, (ast.Break, ast.Continue, ast.Return, ast.FunctionDef, ast.Lambda)) for b in st.body for x in ast.walk(b)):
                    tnames = set(x.id for x in ast.walk(st.target) if isinstance(x, ast.Name))
                    reassigned = any(isinstance(x, ast.Name) and isinstance(x.ctx, ast.Store) and x.id in tnames for b in st.body for x in ast.walk(b))
                    used_after = any(isinstance(x, ast.Name) and x.id in tnames for later in stmts[i + 1:] for x in ast.walk(later))
                    binds = [_bind_target(st.target, r) for r in rows]
                    if not reassigned and not used_after and all(b is not None for b in binds):
                        if drop is not None:
                            out.pop()
                        for b in binds:
                            for bst in st.body:
                                out.append(ast.copy_location(_subst_names(bst, b), st))
                        n += 1
                        continue
            out.append(st)
        return out
    def unroll_class_body(cls):
        """declarations in a class body written as a loop over a literal tuple of names (`for s in (abort, done): s.upon(...)`)
        -> one copy of the body per name; a following `del <loop variable>` goes with it"""
        nonlocal n
        out = []
        i = 0
        body = cls.body
        while i < len(body):
            st = body[i]
            if isinstance(st, ast.For) and not st.orelse and isinstance(st.target, ast.Name) and isinstance(st.iter, (ast.Tuple, ast.List)) and 1 <= len(st.iter.elts) <= 8 \
                    and all(isinstance(e, (ast.Name, ast.Constant)) for e in st.iter.elts) and all(isinstance(b, ast.Expr) and isinstance(b.value, ast.Call) for b in st.body):
                for e in st.iter.elts:
                    for b in st.body:
                        out.append(ast.copy_location(_subst_names(b, {st.target.id: e}), st))
                n += 1
                if i + 1 < len(body) and isinstance(body[i + 1], ast.Delete) and all(isinstance(t, ast.Name) and t.id == st.target.id for t in body[i + 1].targets):
                    i += 1
                i += 1
                continue
            out.append(st)
            i += 1
        cls.body = out
    for tree in trees.values():
        for cls in [c for c in ast.walk(tree) if isinstance(c, ast.ClassDef)]:
            if any(isinstance(st, ast.For) for st in cls.body):
                unroll_class_body(cls)
    for tree in trees.values():
        if not any(isinstance(x, (ast.For, ast.ListComp)) for x in ast.walk(tree)):
            continue
        for fn in [x for x in ast.walk(tree) if isinstance(x, (ast.FunctionDef, ast.AsyncFunctionDef))]:
            if not any(isinstance(x, ast.For) and isinstance(x.iter, (ast.List, ast.Tuple, ast.Name)) and isinstance(x.target, (ast.Tuple, ast.List)) for x in ast.walk(fn)):
                continue
            before = n
            fn.body = unroll_block(fn.body, fn)
            if n != before:
                Comp().visit(fn)
        Comp().visit(tree)
        ast.fix_missing_locations(tree)
    return n



def destatic(trees, ref):
    """a *new* private @staticmethod that is only ever called as `self._h(...)` is seen as the method it could as well be
    (an explicit `self` parameter it does not use); the inliner then treats it like any other private helper"""
    done = []
    for mname, tree in trees.items():
        rm = (ref or {}).get(mname, {}).get('classes', {})
        for cls in [c for c in tree.body if isinstance(c, ast.ClassDef)]:
            for fn in [f for f in cls.body if isinstance(f, ast.FunctionDef)]:
                if not fn.name.startswith('_') or fn.name.startswith('__') or fn.name in rm.get(cls.name, {}).get('methods', {}):
                    continue
                if len(fn.decorator_list) != 1 or not (isinstance(fn.decorator_list[0], ast.Name) and fn.decorator_list[0].id == 'staticmethod'):
                    continue
                if any(a.arg == 'self' for a in fn.args.args) or any(isinstance(x, ast.Name) and x.id == 'self' for x in ast.walk(fn)):
                    continue
                refs = [x for x in ast.walk(tree) if isinstance(x, ast.Attribute) and x.attr == fn.name]
                calls = set(id(c.func) for c in ast.walk(tree) if isinstance(c, ast.Call))
                if not refs or not all(isinstance(r.value, ast.Name) and r.value.id == 'self' and id(r) in calls for r in refs):
                    continue
                fn.decorator_list = []
                fn.args.args.insert(0, ast.arg(arg='self'))
                done.append((mname, cls.name + '.' + fn.name))
        ast.fix_missing_locations(tree)
    return done



_TEMP = re.compile(r'^[A-Za-z0-9]+(?:_[A-Za-z0-9]+)*__([A-Za-z_]\w*)$')


def tidy_inlined_temps(trees):
    """after inlining: a temporary `helper__x` that is only copied into a local once (`y = helper__x`, y defined nowhere else and
    not mentioned before) *is* that local; any other temporary whose bare name `x` is free in the function is called `x`.
    Pure renaming, so the rules meet the names the un-extracted code would have had."""
    n = 0
    for tree in trees.values():
        for fn in [x for x in ast.walk(tree) if isinstance(x, (ast.FunctionDef, ast.AsyncFunctionDef))]:
            names = [x for x in ast.walk(fn) if isinstance(x, ast.Name)]
            temps = sorted(set(x.id for x in names if isinstance(x.ctx, ast.Store) and _TEMP.match(x.id)))
            if not temps:
                continue
            argnames = set(a.arg for f in ast.walk(fn) if isinstance(f, (ast.FunctionDef, ast.AsyncFunctionDef, ast.Lambda))
                           for a in f.args.args + f.args.kwonlyargs + [y for y in (f.args.vararg, f.args.kwarg) if y is not None])
            hnames = set(h.name for h in ast.walk(fn) if isinstance(h, ast.ExceptHandler) and h.name)

            def rename(old, new):
                for x in ast.walk(fn):
                    if isinstance(x, ast.Name) and x.id == old:
                        x.id = new
                    elif isinstance(x, ast.ExceptHandler) and x.name == old:
                        x.name = new
            # top-level statement lists of this function (not nested defs)
            blocks = []
            stack = [fn]
            while stack:
                node = stack.pop()
                for fld in ('body', 'orelse', 'finalbody'):
                    b = getattr(node, fld, None)
                    if isinstance(b, list) and b and isinstance(b[0], ast.stmt):
                        blocks.append(b)
                        for st in b:
                            if not isinstance(st, (ast.FunctionDef, ast.AsyncFunctionDef, ast.ClassDef)):
                                stack.append(st)
                for h in getattr(node, 'handlers', []) or []:
                    stack.append(h)
            # (1) a helper that returned a tuple which the caller unpacks at once: the tuple is distributed over its assignments
            for t in list(temps):
                occ = [y for y in ast.walk(fn) if isinstance(y, ast.Name) and y.id == t]
                loads = [y for y in occ if isinstance(y.ctx, ast.Load)]
                if len(loads) != 1:
                    continue
                unpack = None
                for b in blocks:
                    for st in b:
                        if isinstance(st, ast.Assign) and st.value is loads[0] and len(st.targets) == 1 and isinstance(st.targets[0], (ast.Tuple, ast.List)) \
                                and all(isinstance(e, ast.Name) for e in st.targets[0].elts):
                            unpack = (b, st)
                if unpack is None:
                    continue
                k_ = len(unpack[1].targets[0].elts)
                sites = []
                ok_ = True
                for b in blocks:
                    for st in b:
                        if isinstance(st, ast.Assign) and len(st.targets) == 1 and isinstance(st.targets[0], ast.Name) and st.targets[0].id == t:
                            if isinstance(st.value, ast.Constant) and st.value.value is None:
                                sites.append((b, st, None))
                            elif isinstance(st.value, ast.Tuple) and len(st.value.elts) == k_ and not any(isinstance(e, ast.Starred) for e in st.value.elts):
                                sites.append((b, st, st.value.elts))
                            else:
                                ok_ = False
                if not ok_ or len(sites) != len([y for y in occ if isinstance(y.ctx, ast.Store)]):
                    continue
                names_ = [e.id for e in unpack[1].targets[0].elts]
                for b, st, elts in sites:
                    i = b.index(st)
                    if elts is None:
                        del b[i]
                        if not b:
                            b.append(ast.copy_location(ast.Pass(), st))
                        continue
                    # later elements must not read an earlier target (sequential assignment would change them)
                    new = []
                    clash = False
                    for j, (nm, e) in enumerate(zip(names_, elts)):
                        if any(isinstance(y, ast.Name) and y.id in names_[:j] for y in ast.walk(e)):
                            clash = True
                        new.append(ast.copy_location(ast.Assign(targets=[ast.Name(id=nm, ctx=ast.Store())], value=e), st))
                    if clash:
                        new = [ast.copy_location(ast.Assign(targets=[ast.Tuple(elts=[ast.Name(id=nm, ctx=ast.Store()) for nm in names_], ctx=ast.Store())],
                                                            value=ast.Tuple(elts=list(elts), ctx=ast.Load())), st)]
                    for x in new:
                        ast.fix_missing_locations(x)
                    b[i:i + 1] = new
                ub, ust = unpack
                ub.remove(ust)
                if not ub:
                    ub.append(ast.copy_location(ast.Pass(), ust))
                temps.remove(t)
                n += 1
            # (2) a parameter temporary initialised from a caller local that the inlined body finally assigns back to that local
            #     (x__p = p; ...; p = x__p) and that is not read in between: it *is* that local
            for t in list(temps):
                first = None
                for st in fn.body:
                    if isinstance(st, ast.Assign) and len(st.targets) == 1 and isinstance(st.targets[0], ast.Name) and st.targets[0].id == t:
                        first = st
                        break
                if first is None or not isinstance(first.value, ast.Name):
                    continue
                a_ = first.value.id
                backs = [st for b in blocks for st in b if isinstance(st, ast.Assign) and len(st.targets) == 1 and isinstance(st.targets[0], ast.Name)
                         and st.targets[0].id == a_ and isinstance(st.value, ast.Name) and st.value.id == t]
                if not backs:
                    continue
                lo_, hi_ = first.lineno, max(getattr(x, 'end_lineno', x.lineno) for x in backs)
                a_occ = [y for y in ast.walk(fn) if isinstance(y, ast.Name) and y.id == a_ and y is not first.value and not any(y is bk.targets[0] for bk in backs)]
                stmts_between = []
                started = False
                reads_between = False
                # conservative: in the whole function, `a_` may only occur before `first`, as the back-assignments, or after the last of them (by statement order in fn.body)
                idx_first = fn.body.index(first)
                last_top = max(i for i, st in enumerate(fn.body) if any(bk is x for bk in backs for x in ast.walk(st)))
                for i, st in enumerate(fn.body):
                    if idx_first < i <= last_top:
                        for y in ast.walk(st):
                            if isinstance(y, ast.Name) and y.id == a_ and not any(y is bk.targets[0] for bk in backs):
                                reads_between = True
                if reads_between:
                    continue
                for b in blocks:
                    for bk in backs:
                        if bk in b:
                            b.remove(bk)
                            if not b:
                                b.append(ast.copy_location(ast.Pass(), bk))
                fn.body.remove(first)
                rename(t, a_)
                temps.remove(t)
                n += 1
            for t in temps:
                done = False
                for b in blocks:
                    for i, st in enumerate(b):
                        if isinstance(st, ast.Assign) and len(st.targets) == 1 and isinstance(st.targets[0], ast.Name) and isinstance(st.value, ast.Name) and st.value.id == t:
                            x = st.targets[0].id
                            if x == t or x in argnames or x in hnames:
                                continue
                            occ = [y for y in ast.walk(fn) if isinstance(y, ast.Name) and y.id == x]
                            stores = [y for y in occ if isinstance(y.ctx, ast.Store)]
                            if len(stores) != 1 or stores[0] is not st.targets[0]:
                                continue
                            if any((y.lineno, y.col_offset) < (st.lineno, st.col_offset) for y in occ if y is not st.targets[0] and hasattr(y, 'lineno')) and False:
                                continue
                            # y must not be read before the copy on any path: conservatively, no mention of y outside what follows
                            uses_t_after = True
                            del b[i]
                            if not b:
                                b.append(ast.copy_location(ast.Pass(), st))
                            rename(t, x)
                            n += 1
                            done = True
                            break
                    if done:
                        break
                if done:
                    continue
                bare = _TEMP.match(t).group(1)
                taken = set(y.id for y in ast.walk(fn) if isinstance(y, ast.Name)) | argnames | hnames | set(f.name for f in ast.walk(fn) if isinstance(f, (ast.FunctionDef, ast.AsyncFunctionDef)))
                if bare not in taken and bare not in ('result',):
                    rename(t, bare)
                    n += 1
        ast.fix_missing_locations(tree)
    return n



def thread_optional_locals(trees):
    """`x = None; if c: x = E else: x = None; if x is not None: A(x) else: B`  (what inlining a "the thing, or None" helper leaves)
        ->  `if c and E is not None: A(E) else: B`
    when E is a pure read (names, attributes, constant subscripts), x is a plain local used nowhere else, and c is pure.
    Only the single-arm form is rewritten; anything else is left alone."""
    n = 0

    def pure_read(e):
        for x in ast.walk(e):
            if not isinstance(x, (ast.Name, ast.Attribute, ast.Subscript, ast.Constant, ast.Load, ast.Compare, ast.BoolOp, ast.And, ast.Or, ast.UnaryOp, ast.Not,
                                  ast.Eq, ast.NotEq, ast.Lt, ast.LtE, ast.Gt, ast.GtE, ast.Is, ast.IsNot, ast.In, ast.NotIn)):
                return False
        return True

    def is_none(e):
        return isinstance(e, ast.Constant) and e.value is None

    def rewrite(stmts, fn):
        nonlocal n
        i = 0
        while i + 1 < len(stmts):
            a, b = stmts[i], stmts[i + 1]
            if isinstance(a, ast.If) and isinstance(b, ast.If) and len(a.body) == 1 and len(a.orelse) <= 1 and isinstance(a.body[0], ast.Assign) \
                    and len(a.body[0].targets) == 1 and isinstance(a.body[0].targets[0], ast.Name) and not is_none(a.body[0].value):
                x = a.body[0].targets[0].id
                e = a.body[0].value
                else_none = (len(a.orelse) == 1 and isinstance(a.orelse[0], ast.Assign) and len(a.orelse[0].targets) == 1 and dotted_name(a.orelse[0].targets[0]) == x
                             and is_none(a.orelse[0].value))
                pre_none = i > 0 and isinstance(stmts[i - 1], ast.Assign) and len(stmts[i - 1].targets) == 1 and dotted_name(stmts[i - 1].targets[0]) == x and is_none(stmts[i - 1].value)
                t = b.test
                pos = isinstance(t, ast.Compare) and len(t.ops) == 1 and isinstance(t.ops[0], ast.IsNot) and dotted_name(t.left) == x and is_none(t.comparators[0])
                neg = isinstance(t, ast.Compare) and len(t.ops) == 1 and isinstance(t.ops[0], ast.Is) and dotted_name(t.left) == x and is_none(t.comparators[0])
                if (else_none or (pre_none and not a.orelse)) and (pos or neg) and pure_read(e) and pure_read(a.test):
                    inside = set(id(y) for part in (a, b) for y in ast.walk(part))
                    if pre_none:
                        inside |= set(id(y) for y in ast.walk(stmts[i - 1]))
                    outside_use = any(isinstance(y, ast.Name) and y.id == x and id(y) not in inside for y in ast.walk(fn))
                    none_side = b.orelse if pos else b.body
                    some_side = b.body if pos else b.orelse
                    stored_inside = any(isinstance(y, ast.Name) and y.id == x and isinstance(y.ctx, ast.Store) for part in b.body + b.orelse for y in ast.walk(part))
                    used_on_none = any(isinstance(y, ast.Name) and y.id == x for part in none_side for y in ast.walk(part))
                    if not outside_use and not stored_inside and not used_on_none:
                        cond = ast.BoolOp(op=ast.And(), values=[a.test, ast.Compare(left=copy.deepcopy(e), ops=[ast.IsNot()], comparators=[ast.Constant(value=None)])])
                        new_some = [_subst_names(st_, {x: e}) for st_ in some_side] or [ast.Pass()]
                        new_if = ast.copy_location(ast.If(test=cond, body=new_some, orelse=list(none_side)), b)
                        ast.fix_missing_locations(new_if)
                        lo = i - 1 if pre_none else i
                        stmts[lo:i + 2] = [new_if]
                        n += 1
                        i = lo
                        continue
            i += 1
        for st in stmts:
            if isinstance(st, (ast.FunctionDef, ast.AsyncFunctionDef, ast.ClassDef)):
                continue
            for fld in ('body', 'orelse', 'finalbody'):
                sub = getattr(st, fld, None)
                if isinstance(sub, list) and sub and isinstance(sub[0], ast.stmt):
                    rewrite(sub, fn)
            for h in getattr(st, 'handlers', []) or []:
                rewrite(h.body, fn)

    def dotted_name(t):
        return t.id if isinstance(t, ast.Name) else None

    def never_none(e, tree):
        """a value that cannot be None: a display, a non-None constant, an instance made by calling a CapWords name, or the result
        of a module-level function of this module every return of which is such a value (and which cannot fall off its end)"""
        if isinstance(e, (ast.Tuple, ast.List, ast.Dict, ast.Set, ast.JoinedStr)):
            return True
        if isinstance(e, ast.Constant):
            return e.value is not None
        if isinstance(e, ast.Call):
            f = e.func
            nm = f.id if isinstance(f, ast.Name) else (f.attr if isinstance(f, ast.Attribute) else None)
            if nm and nm[:1].isupper():
                return True
            if isinstance(f, (ast.Call, ast.Subscript)):
                return True         # the result of calling a looked-up class/factory (table[code](), get(..)()): an instance
            if isinstance(f, ast.Name):
                for st in tree.body:
                    if isinstance(st, ast.FunctionDef) and st.name == f.id and not st.decorator_list:
                        rets = [x for x in ast.walk(st) if isinstance(x, ast.Return)]
                        def always_returns(b):
                            if not b:
                                return False
                            l_ = b[-1]
                            if isinstance(l_, (ast.Return, ast.Raise)):
                                return True
                            if isinstance(l_, ast.If):
                                return always_returns(l_.body) and always_returns(l_.orelse)
                            if isinstance(l_, ast.Try) and not l_.finalbody:
                                return always_returns(l_.body + l_.orelse) and all(always_returns(h.body) for h in l_.handlers)
                            return False
                        return bool(rets) and always_returns(st.body) and all(r.value is not None and never_none(r.value, tree) for r in rets)
        return False

    def ends_in_jump(stmts):
        return bool(stmts) and isinstance(stmts[-1], (ast.Return, ast.Raise, ast.Continue, ast.Break))

    def rewrite_chain(stmts, fn, tree):
        """if-chain whose arms end by binding x (to a never-None value or to None), followed by `if x is not None: <...jump>`"""
        nonlocal n
        i = 0
        while i + 1 < len(stmts):
            a, b = stmts[i], stmts[i + 1]
            if isinstance(a, ast.If) and isinstance(b, ast.If) and not b.orelse and ends_in_jump(b.body):
                t = b.test
                if isinstance(t, ast.Compare) and len(t.ops) == 1 and isinstance(t.ops[0], ast.IsNot) and isinstance(t.left, ast.Name) and is_none(t.comparators[0]):
                    x = t.left.id
                    arms = []
                    cur = a
                    ok = True
                    while True:
                        arms.append(cur.body)
                        if len(cur.orelse) == 1 and isinstance(cur.orelse[0], ast.If):
                            cur = cur.orelse[0]
                            continue
                        if cur.orelse:
                            arms.append(cur.orelse)
                        break
                    kinds = []
                    for arm in arms:
                        last = arm[-1] if arm else None
                        if not (isinstance(last, ast.Assign) and len(last.targets) == 1 and dotted_name(last.targets[0]) == x):
                            ok = False
                            break
                        kinds.append('none' if is_none(last.value) else ('some' if never_none(last.value, tree) else 'unknown'))
                    pre_none = i > 0 and isinstance(stmts[i - 1], ast.Assign) and len(stmts[i - 1].targets) == 1 and dotted_name(stmts[i - 1].targets[0]) == x and is_none(stmts[i - 1].value)
                    complete = len(arms) >= 2 and arms[-1] is not arms[0] and (cur.orelse != [] or pre_none)
                    if ok and 'unknown' not in kinds and 'some' in kinds and (cur.orelse or pre_none) and len(arms) >= 2:
                        used_later = any(isinstance(y, ast.Name) and y.id == x for later in stmts[i + 2:] for y in ast.walk(later))
                        if not used_later:
                            for arm, kd in zip(arms, kinds):
                                if kd == 'some':
                                    arm.extend(copy.deepcopy(b.body))
                            del stmts[i + 1]
                            n += 1
                            continue
            i += 1
        for st in stmts:
            if isinstance(st, (ast.FunctionDef, ast.AsyncFunctionDef, ast.ClassDef)):
                continue
            for fld in ('body', 'orelse', 'finalbody'):
                sub = getattr(st, fld, None)
                if isinstance(sub, list) and sub and isinstance(sub[0], ast.stmt):
                    rewrite_chain(sub, fn, tree)
            for h in getattr(st, 'handlers', []) or []:
                rewrite_chain(h.body, fn, tree)
    def rewrite_wrap(stmts, fn):
        """what an inlined "as a list" helper leaves:  [r = None;] if isinstance(v, list): r = v else: r = [v]
           ->  r = v; if not isinstance(r, list): r = [r]          (r an inliner temporary; same value on both paths)"""
        nonlocal n
        i = 0
        while i < len(stmts):
            a = stmts[i]
            if isinstance(a, ast.If) and len(a.body) == 1 and len(a.orelse) == 1 and isinstance(a.body[0], ast.Assign) and isinstance(a.orelse[0], ast.Assign) \
                    and isinstance(a.test, ast.Call) and isinstance(a.test.func, ast.Name) and a.test.func.id == 'isinstance' and len(a.test.args) == 2 \
                    and isinstance(a.test.args[0], ast.Name) and isinstance(a.test.args[1], ast.Name) and a.test.args[1].id == 'list':
                v = a.test.args[0].id
                ba, oa = a.body[0], a.orelse[0]
                if len(ba.targets) == 1 and isinstance(ba.targets[0], ast.Name) and len(oa.targets) == 1 and isinstance(oa.targets[0], ast.Name) and ba.targets[0].id == oa.targets[0].id:
                    r = ba.targets[0].id
                    if _TEMP.match(r) and isinstance(ba.value, ast.Name) and ba.value.id == v and isinstance(oa.value, ast.List) and len(oa.value.elts) == 1 \
                            and isinstance(oa.value.elts[0], ast.Name) and oa.value.elts[0].id == v:
                        lo = i
                        if i > 0 and isinstance(stmts[i - 1], ast.Assign) and len(stmts[i - 1].targets) == 1 and dotted_name(stmts[i - 1].targets[0]) == r and is_none(stmts[i - 1].value):
                            lo = i - 1
                        new = [ast.Assign(targets=[ast.Name(id=r, ctx=ast.Store())], value=ast.Name(id=v, ctx=ast.Load())),
                               ast.If(test=ast.UnaryOp(op=ast.Not(), operand=ast.Call(func=ast.Name(id='isinstance', ctx=ast.Load()),
                                                                                     args=[ast.Name(id=r, ctx=ast.Load()), ast.Name(id='list', ctx=ast.Load())], keywords=[])),
                                      body=[ast.Assign(targets=[ast.Name(id=r, ctx=ast.Store())], value=ast.List(elts=[ast.Name(id=r, ctx=ast.Load())], ctx=ast.Load()))], orelse=[])]
                        for x in new:
                            ast.copy_location(x, a)
                            ast.fix_missing_locations(x)
                        stmts[lo:i + 1] = new
                        n += 1
                        i = lo + 2
                        continue
            i += 1
        for st in stmts:
            if isinstance(st, (ast.FunctionDef, ast.AsyncFunctionDef, ast.ClassDef)):
                continue
            for fld in ('body', 'orelse', 'finalbody'):
                sub = getattr(st, fld, None)
                if isinstance(sub, list) and sub and isinstance(sub[0], ast.stmt):
                    rewrite_wrap(sub, fn)
            for h in getattr(st, 'handlers', []) or []:
                rewrite_wrap(h.body, fn)
    for tree in trees.values():
        for fn in [x for x in ast.walk(tree) if isinstance(x, (ast.FunctionDef, ast.AsyncFunctionDef))]:
            rewrite(fn.body, fn)
            rewrite_chain(fn.body, fn, tree)
            rewrite_wrap(fn.body, fn)
        ast.fix_missing_locations(tree)
    return n



def inline_struct_constants(trees):
    """`_FMT = struct.Struct('!H')` at module level and `_FMT.pack(x)` / `_FMT.unpack(b)` / `_FMT.size`  ->  `struct.pack('!H', x)` /
    `struct.unpack('!H', b)` / `struct.calcsize('!H')`: the precompiled object is only a spelling of its format string"""
    n = 0
    for tree in trees.values():
        consts = {}
        for st in tree.body:
            if isinstance(st, ast.Assign) and len(st.targets) == 1 and isinstance(st.targets[0], ast.Name) and isinstance(st.value, ast.Call) \
                    and ast.unparse(st.value.func) in ('struct.Struct', 'Struct') and len(st.value.args) == 1 and isinstance(st.value.args[0], ast.Constant):
                consts[st.targets[0].id] = st.value.args[0]
        if not consts:
            continue
        stored = set(x.id for x in ast.walk(tree) if isinstance(x, ast.Name) and isinstance(x.ctx, ast.Store))
        consts = dict((k, v) for k, v in consts.items() if sum(1 for x in ast.walk(tree) if isinstance(x, ast.Name) and x.id == k and isinstance(x.ctx, ast.Store)) == 1)

        class T(ast.NodeTransformer):
            def visit_Call(self, node):
                self.generic_visit(node)
                nonlocal n
                f = node.func
                if isinstance(f, ast.Attribute) and isinstance(f.value, ast.Name) and f.value.id in consts and f.attr in ('pack', 'unpack', 'unpack_from', 'pack_into'):
                    n += 1
                    node.func = ast.copy_location(ast.Attribute(value=ast.Name(id='struct', ctx=ast.Load()), attr=f.attr, ctx=ast.Load()), f)
                    node.args = [copy.deepcopy(consts[f.value.id])] + node.args
                return node

            def visit_Attribute(self, node):
                self.generic_visit(node)
                nonlocal n
                if isinstance(node.value, ast.Name) and node.value.id in consts and node.attr == 'size' and isinstance(node.ctx, ast.Load):
                    n += 1
                    return ast.copy_location(ast.Call(func=ast.Attribute(value=ast.Name(id='struct', ctx=ast.Load()), attr='calcsize', ctx=ast.Load()),
                                                      args=[copy.deepcopy(consts[node.value.id])], keywords=[]), node)
                return node
        T().visit(tree)
        ast.fix_missing_locations(tree)
    return n



def desugar_dict_dispatch(trees):
    """a class-level table {const: method, ...} consulted as `h = self.TABLE.get(E); if h is not None: h(self, args)` is the
    if/elif chain `if E == k1: self.m1(args) elif E == k2: self.m2(args)` (E a plain attribute/name read, h used for nothing else);
    the methods then are ordinary private helpers for the inliner"""
    n = 0
    for tree in trees.values():
        for cls in [c for c in tree.body if isinstance(c, ast.ClassDef)]:
            methods = set(f.name for f in cls.body if isinstance(f, ast.FunctionDef))
            tables = {}
            for st in cls.body:
                if isinstance(st, ast.Assign) and len(st.targets) == 1 and isinstance(st.targets[0], ast.Name) and isinstance(st.value, ast.Dict) and st.value.keys \
                        and all(isinstance(k, ast.Constant) for k in st.value.keys) and all(isinstance(v, ast.Name) and v.id in methods for v in st.value.values):
                    tables[st.targets[0].id] = [(k, v.id) for k, v in zip(st.value.keys, st.value.values)]
            if not tables:
                continue
            for fn in [f for f in cls.body if isinstance(f, ast.FunctionDef)]:
                def rewrite(stmts):
                    nonlocal n
                    i = 0
                    while i + 1 < len(stmts):
                        a, b = stmts[i], stmts[i + 1]
                        if isinstance(a, ast.Assign) and len(a.targets) == 1 and isinstance(a.targets[0], ast.Name) and isinstance(a.value, ast.Call) \
                                and isinstance(a.value.func, ast.Attribute) and a.value.func.attr == 'get' and isinstance(a.value.func.value, ast.Attribute) \
                                and isinstance(a.value.func.value.value, ast.Name) and a.value.func.value.value.id == 'self' and a.value.func.value.attr in tables \
                                and 1 <= len(a.value.args) <= 2 and (len(a.value.args) == 1 or (isinstance(a.value.args[1], ast.Constant) and a.value.args[1].value is None)) \
                                and _simple(a.value.args[0]) and isinstance(b, ast.If) and not b.orelse and len(b.body) == 1 and isinstance(b.body[0], ast.Expr) \
                                and isinstance(b.body[0].value, ast.Call) and isinstance(b.body[0].value.func, ast.Name) and b.body[0].value.func.id == a.targets[0].id:
                            h = a.targets[0].id
                            t = b.test
                            okt = (isinstance(t, ast.Name) and t.id == h) or (isinstance(t, ast.Compare) and len(t.ops) == 1 and isinstance(t.ops[0], ast.IsNot)
                                                                               and isinstance(t.left, ast.Name) and t.left.id == h and isinstance(t.comparators[0], ast.Constant)
                                                                               and t.comparators[0].value is None)
                            call = b.body[0].value
                            uses = sum(1 for x in ast.walk(fn) if isinstance(x, ast.Name) and x.id == h)
                            if okt and uses == 3 and call.args and isinstance(call.args[0], ast.Name) and call.args[0].id == 'self' and not call.keywords:
                                e = a.value.args[0]
                                chain = None
                                for k, m in reversed(tables[a.value.func.value.attr]):
                                    c2 = ast.Expr(value=ast.Call(func=ast.Attribute(value=ast.Name(id='self', ctx=ast.Load()), attr=m, ctx=ast.Load()),
                                                                 args=[copy.deepcopy(x) for x in call.args[1:]], keywords=[]))
                                    chain = ast.If(test=ast.Compare(left=copy.deepcopy(e), ops=[ast.Eq()], comparators=[copy.deepcopy(k)]), body=[c2], orelse=[chain] if chain else [])
                                ast.copy_location(chain, a)
                                ast.fix_missing_locations(chain)
                                stmts[i:i + 2] = [chain]
                                n += 1
                                continue
                        i += 1
                    for st in stmts:
                        for fld in ('body', 'orelse', 'finalbody'):
                            sub = getattr(st, fld, None)
                            if isinstance(sub, list) and sub and isinstance(sub[0], ast.stmt) and not isinstance(st, (ast.FunctionDef, ast.ClassDef)):
                                rewrite(sub)
                rewrite(fn.body)
        ast.fix_missing_locations(tree)
    return n



def renest_callback_methods(trees, ref):
    """a *new* private method that is referenced exactly once, as a Deferred callback with extra arguments taken from plain locals
    (`d.addCallback(self._f, stream)`, def _f(self, result, stream)), is the closure it was before it was moved: it is seen as
    `def f(result): ...` nested in the registering method (parameters standing for the locals, which must not be re-bound after
    the registration), registered as `d.addCallback(f)`."""
    n = 0
    for mname, tree in trees.items():
        rm = (ref or {}).get(mname, {}).get('classes', {})
        for cls in [c for c in tree.body if isinstance(c, ast.ClassDef)]:
            known = set(rm.get(cls.name, {}).get('methods', {}))
            for fn in list(cls.body):
                if not isinstance(fn, ast.FunctionDef) or not fn.name.startswith('_') or fn.name.startswith('__') or fn.name in known or fn.decorator_list:
                    continue
                a = fn.args
                if a.vararg or a.kwarg or a.kwonlyargs or a.defaults or len(a.args) < 3 or a.args[0].arg != 'self':
                    continue
                refs = [x for x in ast.walk(tree) if isinstance(x, ast.Attribute) and x.attr == fn.name]
                if len(refs) != 1 or not (isinstance(refs[0].value, ast.Name) and refs[0].value.id == 'self'):
                    continue
                site = None
                for host in [f for f in cls.body if isinstance(f, ast.FunctionDef) and f is not fn]:
                    for st in host.body:
                        if isinstance(st, ast.Expr) and isinstance(st.value, ast.Call) and isinstance(st.value.func, ast.Attribute) and st.value.func.attr in ('addCallback', 'addBoth') \
                                and st.value.args and st.value.args[0] is refs[0] and not st.value.keywords:
                            site = (host, st)
                if site is None:
                    continue
                host, st = site
                extra = st.value.args[1:]
                params = [x.arg for x in a.args[2:]]
                if len(extra) != len(params) or not all(isinstance(e, ast.Name) for e in extra):
                    continue
                idx = host.body.index(st)
                later_stores = set(y.id for later in host.body[idx + 1:] for y in ast.walk(later) if isinstance(y, ast.Name) and isinstance(y.ctx, ast.Store))
                if any(e.id in later_stores for e in extra):
                    continue
                body_names = set(y.id for y in ast.walk(fn) if isinstance(y, ast.Name))
                host_locals = set(y.id for y in ast.walk(host) if isinstance(y, ast.Name) and isinstance(y.ctx, ast.Store)) | set(x.arg for x in host.args.args)
                fn_locals = set(y.id for b in fn.body for y in ast.walk(b) if isinstance(y, ast.Name) and isinstance(y.ctx, ast.Store))
                mapping = dict((p_, e.id) for p_, e in zip(params, extra))
                # the moved body must not bind names that mean something else in the host
                if (fn_locals - set(params)) & (host_locals - set(mapping.values())):
                    continue
                if any(isinstance(y, ast.Name) and isinstance(y.ctx, ast.Store) and y.id in params for b in fn.body for y in ast.walk(b)):
                    continue
                new_name = fn.name.lstrip('_')
                if new_name in host_locals or new_name in body_names:
                    continue
                inner = ast.FunctionDef(name=new_name, args=ast.arguments(posonlyargs=[], args=[a.args[1]], vararg=None, kwonlyargs=[], kw_defaults=[], kwarg=None, defaults=[]),
                                        body=[_subst_names(b, dict((p_, ast.Name(id=v_, ctx=ast.Load())) for p_, v_ in mapping.items())) for b in fn.body],
                                        decorator_list=[], returns=None, type_comment=None)
                try:
                    inner.type_params = []
                except Exception:
                    pass
                ast.copy_location(inner, st)
                st.value.args = [ast.copy_location(ast.Name(id=new_name, ctx=ast.Load()), refs[0])]
                host.body.insert(idx, inner)
                cls.body.remove(fn)
                ast.fix_missing_locations(host)
                n += 1
        ast.fix_missing_locations(tree)
    return n
