"""A whitelisting mini-interpreter for FSM matcher functions.

Matchers in this repository look at a line only through prefix-observing
operations (x[i], x[:k], startswith(const), len(x) compared with a constant,
strip()-equality with constants, int(x[:k])) combined with boolean connectives.
For such a function the outcome is constant on each class "literal prefix +
arbitrary tail" once the prefix is at least as long as every constant index the
function uses; the rules therefore evaluate the matcher's AST (never the repo's
code objects) on a handful of representatives per class with tails chosen to
cover the empty / blank / non-blank / long orderings, and require agreement.
Any construct outside the whitelist raises Undecided.
"""
import ast

from .index import Undecided
from .match import dotted, src, const, NOCONST, NOISE_ROOTS


class Raised(Exception):
    def __init__(self, kind):
        Exception.__init__(self, kind)
        self.kind = kind


class _Return(Exception):
    def __init__(self, value):
        self.value = value


ALLOWED_STR_METHODS = ('startswith', 'endswith', 'strip', 'lstrip', 'rstrip', 'split', 'lower', 'upper', 'isdigit', 'find')


class Interp(object):
    def __init__(self, resolve_call=None, attrs=None, max_steps=2000):
        """resolve_call(call_ast) -> (unit, bound_args_dict) or None for helper calls;
        attrs: dotted name -> value (e.g. 'self.code')"""
        self.resolve_call = resolve_call
        self.attrs = dict(attrs or {})
        self.writes = {}
        self.steps = 0
        self.max_steps = max_steps

    # ---------------------------------------------------------- functions
    def call_unit(self, unit, args):
        """run a FunctionDef / Lambda unit with positional args (self excluded)"""
        node = unit.node
        params = [a.arg for a in node.args.args]
        if params and params[0] == 'self':
            params = params[1:]
        env = dict(zip(params, args))
        if len(params) != len(args):
            raise Undecided('arity mismatch calling %s' % unit.qual)
        if isinstance(node, ast.Lambda):
            return self.ev(node.body, env, unit)
        try:
            self.block(node.body, env, unit)
        except _Return as r:
            return r.value
        return None

    def block(self, stmts, env, unit):
        for st in stmts:
            self.steps += 1
            if self.steps > self.max_steps:
                raise Undecided('matcher evaluation too long')
            if isinstance(st, ast.Expr):
                if isinstance(st.value, ast.Constant):
                    continue
                self.ev(st.value, env, unit)
            elif isinstance(st, ast.Assign):
                v = self.ev(st.value, env, unit)
                for t in st.targets:
                    if isinstance(t, ast.Name):
                        env[t.id] = v
                    elif dotted(t) is not None:
                        self.attrs[dotted(t)] = v
                        self.writes[dotted(t)] = v
                    else:
                        raise Undecided('assignment target %s' % src(t))
            elif isinstance(st, ast.Return):
                raise _Return(self.ev(st.value, env, unit) if st.value is not None else None)
            elif isinstance(st, ast.If):
                if self.truth(self.ev(st.test, env, unit)):
                    self.block(st.body, env, unit)
                else:
                    self.block(st.orelse, env, unit)
            elif isinstance(st, ast.Try):
                try:
                    self.block(st.body, env, unit)
                except Raised as r:
                    for h in st.handlers:
                        names = None if h.type is None else [dotted(x) for x in (h.type.elts if isinstance(h.type, ast.Tuple) else [h.type])]
                        if names is None or 'Exception' in names or 'BaseException' in names or r.kind in names:
                            self.block(h.body, env, unit)
                            break
                    else:
                        raise
                else:
                    self.block(st.orelse, env, unit)
                self.block(st.finalbody, env, unit)
            elif isinstance(st, ast.Raise):
                e = st.exc.func if isinstance(st.exc, ast.Call) else st.exc
                raise Raised((dotted(e) or 'Exception').split('.')[-1])
            elif isinstance(st, ast.Pass):
                continue
            else:
                raise Undecided('statement %s in matcher' % type(st).__name__)

    @staticmethod
    def truth(v):
        return bool(v)

    # -------------------------------------------------------- expressions
    def ev(self, e, env, unit):
        self.steps += 1
        if self.steps > self.max_steps:
            raise Undecided('matcher evaluation too long')
        if isinstance(e, ast.Constant):
            return e.value
        if isinstance(e, ast.Name):
            if e.id in env:
                return env[e.id]
            if e.id in ('True', 'False', 'None'):
                return {'True': True, 'False': False, 'None': None}[e.id]
            raise Undecided('free name %s in matcher' % e.id)
        d = dotted(e)
        if d is not None and d in self.attrs:
            return self.attrs[d]
        if isinstance(e, ast.UnaryOp) and isinstance(e.op, ast.Not):
            return not self.truth(self.ev(e.operand, env, unit))
        if isinstance(e, ast.UnaryOp) and isinstance(e.op, ast.USub):
            return -self.ev(e.operand, env, unit)
        if isinstance(e, ast.BoolOp):
            v = None
            for x in e.values:
                v = self.ev(x, env, unit)
                if isinstance(e.op, ast.And) and not self.truth(v):
                    return v
                if isinstance(e.op, ast.Or) and self.truth(v):
                    return v
            return v
        if isinstance(e, ast.Compare):
            left = self.ev(e.left, env, unit)
            for op, r in zip(e.ops, e.comparators):
                right = self.ev(r, env, unit)
                try:
                    ok = {ast.Eq: lambda a, b: a == b, ast.NotEq: lambda a, b: a != b, ast.Lt: lambda a, b: a < b,
                          ast.LtE: lambda a, b: a <= b, ast.Gt: lambda a, b: a > b, ast.GtE: lambda a, b: a >= b,
                          ast.Is: lambda a, b: a is b, ast.IsNot: lambda a, b: a is not b,
                          ast.In: lambda a, b: a in b, ast.NotIn: lambda a, b: a not in b}[type(op)](left, right)
                except TypeError:
                    raise Raised('TypeError')
                if not ok:
                    return False
                left = right
            return True
        if isinstance(e, (ast.List, ast.Tuple)):
            return [self.ev(x, env, unit) for x in e.elts]
        if isinstance(e, ast.Subscript):
            v = self.ev(e.value, env, unit)
            if not isinstance(v, (str, list)):
                raise Undecided('subscript of %s' % type(v).__name__)
            if isinstance(e.slice, ast.Slice):
                lo = self.ev(e.slice.lower, env, unit) if e.slice.lower is not None else None
                hi = self.ev(e.slice.upper, env, unit) if e.slice.upper is not None else None
                if e.slice.step is not None:
                    raise Undecided('slice step')
                return v[lo:hi]
            i = self.ev(e.slice, env, unit)
            try:
                return v[i]
            except IndexError:
                raise Raised('IndexError')
        if isinstance(e, ast.BinOp) and isinstance(e.op, (ast.Add, ast.Mod)):
            l, r = self.ev(e.left, env, unit), self.ev(e.right, env, unit)
            try:
                return l + r if isinstance(e.op, ast.Add) else l % (tuple(r) if isinstance(r, list) else r)
            except Exception:
                raise Raised('TypeError')
        if isinstance(e, ast.IfExp):
            return self.ev(e.body if self.truth(self.ev(e.test, env, unit)) else e.orelse, env, unit)
        if isinstance(e, ast.Call):
            return self.call(e, env, unit)
        raise Undecided('expression %s in matcher' % type(e).__name__)

    def call(self, e, env, unit):
        f = e.func
        args = [self.ev(a, env, unit) for a in e.args]
        if e.keywords:
            raise Undecided('keyword arguments in matcher call')
        if isinstance(f, ast.Name):
            if f.id == 'len' and len(args) == 1:
                return len(args[0])
            if f.id == 'int' and len(args) == 1:
                try:
                    return int(args[0])
                except (ValueError, TypeError):
                    raise Raised('ValueError')
            if f.id in ('str', 'bool') and len(args) == 1:
                return {'str': str, 'bool': bool}[f.id](args[0])
        if isinstance(f, ast.Attribute):
            d = dotted(f.value)
            recv_is_value = not (d is not None and d.split('.')[0] == 'self' and len(d.split('.')) == 1)
            if dotted(f) is not None and dotted(f).startswith('self.') and len(dotted(f).split('.')) == 2 and self.resolve_call:
                tgt = self.resolve_call(e, unit)
                if tgt is not None:
                    return Interp.call_unit(self, tgt, args)
            if recv_is_value and f.attr in ALLOWED_STR_METHODS:
                v = self.ev(f.value, env, unit)
                if isinstance(v, str):
                    try:
                        return getattr(v, f.attr)(*args)
                    except Exception:
                        raise Raised('TypeError')
                raise Undecided('method %s on %s' % (f.attr, type(v).__name__))
        dn = dotted(f)
        if dn is not None and dn.split('.')[0] in NOISE_ROOTS:
            return None     # logging has no bearing on the match
        if isinstance(f, ast.Name) and self.resolve_call:
            tgt = self.resolve_call(e, unit)
            if tgt is not None:
                return Interp.call_unit(self, tgt, args)
        raise Undecided('call %s in matcher' % src(e)[:40])


TAILS = ('', ' ', 'x', '.', ' .', '0', 'OK', '250 OK', 'abc def=1', '.\t', 'x' * 40)


def classify(match_fn, prefix, exact=False):
    """Evaluate match_fn(line) -> True/False/('raise',kind) on every representative of the
    class; returns the common outcome, or None when the representatives disagree."""
    outs = set()
    members = [prefix] if exact else [prefix + t for t in TAILS]
    for m in members:
        try:
            r = match_fn(m)
            outs.add(bool(r))
        except Raised as ex:
            outs.add(('raise', ex.kind))
    if len(outs) == 1:
        return outs.pop()
    return None
