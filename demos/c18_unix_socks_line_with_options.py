"""C18: an existing listener 'unix:/run/tor/socks WorldWritable' (unix form with trailing option words) is used as it is:
the endpoint must point at /run/tor/socks, not at the path-with-options.
Run: cd /repo && PYTHONPATH=/repo /venv/bin/python /verif/demos/c18_unix_socks_line_with_options.py"""
from txtorcon import TorConfig
from txtorcon.torconfig import _endpoint_from_socksport_line

class R(object):
    pass
cfg = TorConfig()
cfg.SocksPort = ['unix:/run/tor/socks WorldWritable', '9050 IsolateDestAddr']
ep = cfg.socks_endpoint(R())
assert ep._path == '/run/tor/socks', ep._path
ep = cfg.socks_endpoint(R(), 'unix:/run/tor/socks')
assert ep._path == '/run/tor/socks', ep._path
ep = _endpoint_from_socksport_line(R(), 'unix:"/run/my tor/socks" GroupWritable')
assert ep._path == '/run/my tor/socks', ep._path
ep = _endpoint_from_socksport_line(R(), 'unix:/plain')
assert ep._path == '/plain', ep._path
print('OK')
