"""C11: a CONF_CHANGED event that lists one option several times and is followed by a bare keyword (an option reset to its
default) must still report all the values of the repeated option.
Run: cd /repo && PYTHONPATH=/repo /venv/bin/python /verif/demos/c11_conf_changed_repeated_then_bare.py"""
from txtorcon.torcontrolprotocol import parse_keywords, DEFAULT_VALUE

got = parse_keywords('Log=notice stdout\nLog=debug file /tmp/d.log\nSocksPort', multiline_values=False)
assert got == {'Log': ['notice stdout', 'debug file /tmp/d.log'], 'SocksPort': DEFAULT_VALUE}, got
got = parse_keywords('Log=a\nLog=b\nLog=c\nORPort\nExitNodes=x', multiline_values=False)
assert got == {'Log': ['a', 'b', 'c'], 'ORPort': DEFAULT_VALUE, 'ExitNodes': 'x'}, got
# unchanged cases
assert parse_keywords('Foo=bar\nBar', multiline_values=False) == {'Foo': 'bar', 'Bar': DEFAULT_VALUE}
print('OK')
