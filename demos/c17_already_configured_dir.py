"""
C17: listen() on a directory that is already in the config, while the config also holds an authenticated
filesystem service (which has no .dir): the lookup loop raised AttributeError after the local bind and
left the listener open.
Run: cd /repo && PYTHONPATH=/repo /venv/bin/python /verif/demos/c17_already_configured_dir.py

History: one TorConfig, two onion endpoints.

 1. a basic-auth filesystem onion service is brought up through
    TCPHiddenServiceEndpoint.listen() (so the TorConfig now carries a
    FilesystemAuthenticatedOnionService in .HiddenServices);
 2. a second, plain filesystem onion service (other directory, other
    public port) is listened on with the same TorConfig.

The second listen() must bind its own loopback listener, ask Tor to
forward the public port to exactly that listener and resolve to a port
object.  And whatever happens, a listen() that fails must not leave its
local listener open.
"""

import os
import shutil
import sys
import tempfile

from zope.interface import implementer

from twisted.internet.address import IPv4Address
from twisted.internet.interfaces import IReactorTCP, IListeningPort
from twisted.python.failure import Failure

from cryptography.hazmat.backends import default_backend
from cryptography.hazmat.primitives import serialization
from cryptography.hazmat.primitives.asymmetric import rsa

from txtorcon import TorConfig, TCPHiddenServiceEndpoint, AuthBasic
from txtorcon.onion import _compute_permanent_id
from txtorcon.testutil import FakeControlProtocol
from txtorcon.util import NoOpProtocolFactory


key = rsa.generate_private_key(public_exponent=65537, key_size=1024, backend=default_backend())
PRIVKEY = key.private_bytes(
    serialization.Encoding.PEM,
    serialization.PrivateFormat.TraditionalOpenSSL,
    serialization.NoEncryption(),
)
PERM_ID = _compute_permanent_id(key)
AUTH_HOSTNAME = PERM_ID + '.onion'
PLAIN_ID = 'plainplainplain2'
PLAIN_HOSTNAME = PLAIN_ID + '.onion'


@implementer(IListeningPort)
class FakePort(object):
    def __init__(self, reactor, port, interface):
        self.reactor = reactor
        self.port = port
        self.interface = interface
        self.open = True

    def startListening(self):
        self.open = True

    def stopListening(self):
        self.open = False

    def getHost(self):
        return IPv4Address('TCP', self.interface, self.port)


@implementer(IReactorTCP)
class FakeReactor(object):
    def __init__(self):
        self.ports = []
        self._next = 40000

    def listenTCP(self, port, factory, backlog=50, interface=''):
        if port == 0:
            self._next += 1
            port = self._next
        p = FakePort(self, port, interface)
        self.ports.append(p)
        return p

    def connectTCP(self, *a, **kw):
        raise RuntimeError("no outgoing connections in this demo")

    def open_ports(self):
        return [p for p in self.ports if p.open]


class FakeTor(FakeControlProtocol):
    """
    Acts like Tor on SETCONF: creates every HiddenServiceDir it is told
    about, with key / hostname files.
    """

    def set_conf(self, *args):
        rtn = FakeControlProtocol.set_conf(self, *args)
        self.last_setconf = list(zip(args[0::2], args[1::2]))
        authed = set()
        current = None
        for k, v in self.last_setconf:
            if k == 'HiddenServiceDir':
                current = v
            elif k == 'HiddenServiceAuthorizeClient':
                authed.add(current)
        for k, v in self.last_setconf:
            if k == 'HiddenServiceDir' and not os.path.exists(v):
                os.mkdir(v)
                if v in authed:
                    with open(os.path.join(v, 'private_key'), 'wb') as f:
                        f.write(PRIVKEY)
                    with open(os.path.join(v, 'hostname'), 'w') as f:
                        f.write('{} cookieAAAAAAAAAAAAAAAAA # client: alice\n'.format(AUTH_HOSTNAME))
                else:
                    with open(os.path.join(v, 'hostname'), 'w') as f:
                        f.write(PLAIN_HOSTNAME + '\n')
        return rtn


def make_config(proto):
    proto.answers.append(
        'config/names=\nHiddenServiceOptions Virtual\nControlPort LineList\nSOCKSPort LineList'
    )
    proto.answers.append('config/defaults=')
    proto.answers.append('HiddenServiceOptions')
    proto.answers.append({'ControlPort': '37337'})
    proto.answers.append({'SOCKSPort': '9050'})
    proto.answers.append({'onions/detached': ''})
    proto.answers.append({'onions/current': ''})
    config = TorConfig(proto)
    assert config.post_bootstrap.called
    return config


def main():
    tmp = tempfile.mkdtemp(prefix='c17demo')
    try:
        reactor = FakeReactor()
        proto = FakeTor([])
        config = make_config(proto)

        # -- step 1: authenticated filesystem service -------------------
        ep1 = TCPHiddenServiceEndpoint(
            reactor, config, 80,
            hidden_service_dir=os.path.join(tmp, 'authed'),
            ephemeral=False,
            auth=AuthBasic(['alice']),
        )
        res1 = []
        ep1.listen(NoOpProtocolFactory()).addBoth(res1.append)
        proto.events['HS_DESC']('UPLOAD {} BASIC_AUTH $hsdir0 descid'.format(PERM_ID))
        proto.events['HS_DESC']('UPLOADED {} BASIC_AUTH $hsdir0'.format(PERM_ID))
        assert len(res1) == 1 and not isinstance(res1[0], Failure), res1
        port1 = res1[0]
        assert port1.getHost().onion_uri == AUTH_HOSTNAME
        assert len(reactor.open_ports()) == 1

        # -- step 2: a second, plain filesystem service -----------------
        ep2 = TCPHiddenServiceEndpoint(
            reactor, config, 81,
            hidden_service_dir=os.path.join(tmp, 'plain'),
            ephemeral=False,
        )
        res2 = []
        ep2.listen(NoOpProtocolFactory()).addBoth(res2.append)
        if not res2:
            proto.events['HS_DESC']('UPLOAD {} NO_AUTH $hsdir1 descid'.format(PLAIN_ID))
            proto.events['HS_DESC']('UPLOADED {} NO_AUTH $hsdir1'.format(PLAIN_ID))
        assert len(res2) == 1, "second listen() never finished"

        if isinstance(res2[0], Failure):
            # a failed listen() must at least not leak its listener
            leaked = [p for p in reactor.open_ports() if p is not port1.local_address]
            res2[0].trap(Exception)
            raise AssertionError(
                "second listen() failed with {}: {}; listeners left open by it: {}".format(
                    res2[0].type.__name__, res2[0].getErrorMessage(),
                    [(p.interface, p.port) for p in leaked],
                )
            )

        port2 = res2[0]
        # -- step 3: listen again on the directory that is already configured (the "already" leg) ----
        ep3 = TCPHiddenServiceEndpoint(
            reactor, config, 81,
            hidden_service_dir=os.path.join(tmp, 'plain'),
            ephemeral=False,
        )
        before = set(reactor.open_ports())
        res3 = []
        ep3.listen(NoOpProtocolFactory()).addBoth(res3.append)
        assert len(res3) == 1, "third listen() never finished"
        if isinstance(res3[0], Failure):
            leaked = [p for p in reactor.open_ports() if p not in before]
            raise AssertionError(
                "listen() on an already configured directory failed with {}: {}; listeners left open by it: {}".format(
                    res3[0].type.__name__, res3[0].getErrorMessage(), [(p.interface, p.port) for p in leaked]))
        assert res3[0].getHost().onion_uri == PLAIN_HOSTNAME
    finally:
        shutil.rmtree(tmp, ignore_errors=True)
    print("OK")


if __name__ == '__main__':
    import warnings
    warnings.simplefilter('ignore')
    try:
        main()
    except AssertionError as e:
        print("FAIL:", e)
        sys.exit(1)
