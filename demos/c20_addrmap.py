"""C20: address map holds a name exactly until its latest mapping expires.
Run: PYTHONPATH=/repo /venv/bin/python demos/c20_addrmap.py"""
import datetime
from twisted.internet import task
from txtorcon.addrmap import AddrMap

def fmt(dt): return dt.strftime('"%Y-%m-%d %H:%M:%S"')
def mk():
    am = AddrMap(); clock = task.Clock(); am.scheduler = clock
    ev = []
    class L(object):
        def addrmap_added(self, a): ev.append(('added', a.name))
        def addrmap_expired(self, n): ev.append(('expired', n))
    from zope.interface import directlyProvides
    from txtorcon.interface import IAddrListener
    l = L(); directlyProvides(l, IAddrListener); am.add_listener(l)
    return am, clock, ev
def has(am, k):
    try: am.find(k); return True
    except KeyError: return False
now = datetime.datetime.utcnow()

# (1) a mapping expiring in 2 days + 10 s must still be there after a minute
am, clock, ev = mk()
e = now + datetime.timedelta(days=2, seconds=10)
am.update('www.example.com 1.2.3.4 %s EXPIRES=%s' % (fmt(e), fmt(e)))
clock.advance(60)
assert has(am, 'www.example.com'), 'expired after 60 s although valid for 2 days'
# (2) after expiry neither the name nor the address resolves; one 'expired'
clock.advance(2 * 86400 + 20)
assert not has(am, 'www.example.com') and not has(am, '1.2.3.4'), sorted(am.addr)
assert ev == [('added', 'www.example.com'), ('expired', 'www.example.com')], ev
# (3) a later NEVER makes the mapping permanent
am, clock, ev = mk()
e = now + datetime.timedelta(seconds=30)
am.update('a.example 1.2.3.4 %s EXPIRES=%s' % (fmt(e), fmt(e)))
am.update('a.example 1.2.3.4 NEVER')
clock.advance(3600)
assert has(am, 'a.example'), 'NEVER mapping expired'
# (4) an error mapping drops the name at once and leaves no timer behind
am, clock, ev = mk()
am.update('b.example 1.2.3.4 %s EXPIRES=%s' % (fmt(e), fmt(e)))
am.update('b.example <error> %s EXPIRES=%s' % (fmt(e), fmt(e)))
assert not has(am, 'b.example') and not has(am, '1.2.3.4'), sorted(am.addr)
clock.advance(3600)     # must not raise from a stale timer
assert clock.getDelayedCalls() == []
print('ok')
