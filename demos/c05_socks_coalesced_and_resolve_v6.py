"""C05: (1) application bytes in the same segment as the SOCKS success reply are relayed at once;
(2) a RESOLVE answered with an IPv6 address yields that address instead of a TypeError.
Run: PYTHONPATH=/repo /venv/bin/python demos/c05_socks_coalesced_and_resolve_v6.py"""
from socket import inet_pton, AF_INET6
from txtorcon import socks

got = []
class App(object):
    def dataReceived(self, d):
        got.append(d)
def create(addr, port):
    return App()
sent = []
m = socks._SocksMachine('CONNECT', 'example.com', 80, on_data=sent.append, create_connection=create)
m.connection()
m.feed_data(b'\x05\x00')
m.feed_data(b'\x05\x00\x00\x01\x00\x00\x00\x00\x00\x00' + b'HELLO')
assert got == [b'HELLO'], 'withheld: %r (buffer %r)' % (got, m._data)

res = []
m = socks._SocksMachine('RESOLVE', 'example.com', 0, on_data=sent.append)
m.when_done().addBoth(res.append)
m.connection()
m.feed_data(b'\x05\x00')
m.feed_data(b'\x05\x00\x00\x04' + inet_pton(AF_INET6, '2001:db8::1') + b'\x00\x00')
assert res == ['2001:db8::1'], res
print('ok')

# (3) CONNECT answered with a domain-name bound address still creates the connection
got[:] = []
res = []
m = socks._SocksMachine('CONNECT', 'example.com', 80, on_data=sent.append, create_connection=create)
m.when_done().addBoth(res.append)
m.connection()
m.feed_data(b'\x05\x00')
m.feed_data(b'\x05\x00\x00\x03\x03abc\x00\x50' + b'DATA')
assert len(res) == 1 and isinstance(res[0], App), res
assert got == [b'DATA'], got
print('ok3')
