"""C15: the descriptor wait (a) completes in await-all mode when the last outstanding upload FAILS after
another succeeded, (b) never errbacks twice, (c) removes its HS_DESC subscription on failure too.
KNOWN FINDING (not fixed; tests pin it): an UPLOADED event of a *different* service completes ours.
Run: PYTHONPATH=/repo /venv/bin/python demos/c15_descriptor_wait.py"""
from twisted.internet import defer
from txtorcon.onion import _await_descriptor_upload

class Proto(object):
    def __init__(self): self.cbs = []
    def add_event_listener(self, evt, cb): self.cbs.append(cb); return defer.succeed(None)
    def remove_event_listener(self, evt, cb): self.cbs.remove(cb); return defer.succeed(None)
class Onion(object):
    hostname = 'aaaa.onion'

def run(events, await_all):
    p = Proto(); res = []
    d = _await_descriptor_upload(p, Onion(), None, await_all)
    d.addBoth(res.append)
    cb = p.cbs[0]
    for e in events:
        if p.cbs:
            cb(e)
    return p, res

p, res = run(['UPLOAD aaaa UNKNOWN d1', 'UPLOAD aaaa UNKNOWN d2', 'UPLOADED aaaa UNKNOWN d1', 'FAILED aaaa UNKNOWN d2 REASON=X'], True)
assert len(res) == 1 and res[0] is None, ('await-all never completed', res)
assert p.cbs == [], 'subscription left after success'
p, res = run(['UPLOAD aaaa UNKNOWN d1', 'FAILED aaaa UNKNOWN d1 REASON=X'], False)
assert len(res) == 1 and hasattr(res[0], 'value'), res
assert p.cbs == [], 'subscription left after failure'
# a second FAILED after the wait already failed must not raise AlreadyCalledError
p = Proto(); res = []
d = _await_descriptor_upload(p, Onion(), None, False); d.addBoth(res.append)
cb = p.cbs[0]
cb('UPLOAD aaaa UNKNOWN d1'); cb('FAILED aaaa UNKNOWN d1 REASON=X'); cb('FAILED aaaa UNKNOWN d1 REASON=X')
p, res = run(['UPLOAD aaaa UNKNOWN d1', 'UPLOADED bbbb UNKNOWN d1'], False)
print('known finding still present' if res else 'foreign UPLOADED ignored', res)
print('ok')
