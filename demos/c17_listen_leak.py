"""C17: if onion-service creation fails (ADD_ONION rejected), listen() fails with that error and leaves no
local listener open (before the fix the 127.0.0.1:0 listener stayed bound).
Run: PYTHONPATH=/repo /venv/bin/python demos/c17_listen_leak.py"""
from unittest.mock import patch, Mock
from twisted.internet import defer
from twisted.internet.protocol import Factory
from zope.interface import implementer
from twisted.internet.interfaces import IStreamServerEndpoint, IListeningPort
from txtorcon import TorConfig, endpoints
from txtorcon.torcontrolprotocol import TorProtocolError

stopped = []
class Port(object):
    def getHost(self):
        return Mock(port=4321)
    def stopListening(self):
        stopped.append(1); return defer.succeed(None)
@implementer(IStreamServerEndpoint)
class Ep(object):
    def listen(self, f): return defer.succeed(Port())

cfg = TorConfig()
proto = Mock()
proto.queue_command = lambda cmd, arg=None: defer.fail(TorProtocolError(512, 'Invalid VIRTPORT/TARGET'))
proto.add_event_listener = lambda *a: defer.succeed(None)
proto.remove_event_listener = lambda *a: defer.succeed(None)
cfg.__dict__['_protocol'] = proto
res = []
with patch.object(endpoints, 'serverFromString', lambda r, s: Ep()):
    ep = endpoints.TCPHiddenServiceEndpoint(Mock(), cfg, 80)
    ep.listen(Factory()).addBoth(res.append)
assert res and hasattr(res[0], 'value') and isinstance(res[0].value, TorProtocolError), res
assert stopped == [1], 'local listener left open after a failed creation: %r' % stopped
print('ok')
