"""C06: (1) RESOLVE_PTR of an IPv6 literal sends ATYP=4 + 16 bytes (was: OSError from inet_aton);
(2) RESOLVE of a non-ASCII name is refused instead of sent as UTF-8;
(3) KNOWN FINDING (not fixed, test_socks_ipv6 pins it): CONNECT to an IPv6 literal sends a 10-byte request.
Run: PYTHONPATH=/repo /venv/bin/python demos/c06_socks_requests.py"""
from socket import inet_pton, AF_INET6
from txtorcon import socks

def request(req, host, port=0):
    sent = []
    m = socks._SocksMachine(req, host, port, on_data=sent.append, create_connection=lambda a, p: None)
    m.connection()
    m.feed_data(b'\x05\x00')
    return sent[1] if len(sent) > 1 else None

r = request('RESOLVE_PTR', '2001:db8::1')
assert r == b'\x05\xf1\x00\x04' + inet_pton(AF_INET6, '2001:db8::1') + b'\x00\x00', r
r = request('RESOLVE_PTR', '1.2.3.4')
assert r == b'\x05\xf1\x00\x01\x01\x02\x03\x04\x00\x00', r
try:
    r = request('RESOLVE', u'ex\xe4mple.com')
except UnicodeEncodeError:
    r = 'refused'
assert r == 'refused', r
r = request('CONNECT', '2001:db8::1', 80)
print('known finding still present' if len(r) == 10 else 'CONNECT v6 ok', len(r))
print('ok')
