"""C20: a name whose first mapping is already past its expiry, re-timed by a second event before the reactor turns: the
mapping must go away at the NEW expiry (10 s from now), not 'new - old' seconds after now.
Run: cd /repo && PYTHONPATH=/repo /venv/bin/python /verif/demos/c20_expired_then_retimed_same_tick.py"""
import datetime
from twisted.internet import task
from txtorcon import addrmap

clock = task.Clock()
base = datetime.datetime(2030, 1, 1, 12, 0, 0)

class FakeDT(datetime.datetime):
    @classmethod
    def utcnow(cls):
        return base + datetime.timedelta(seconds=clock.seconds())
addrmap.datetime.datetime = FakeDT
try:
    am = addrmap.AddrMap()
    am.scheduler = clock
    fmt = '%Y-%m-%d %H:%M:%S'
    past = (base - datetime.timedelta(seconds=3600)).strftime(fmt)
    soon = (base + datetime.timedelta(seconds=10)).strftime(fmt)
    am.update('a.example 10.0.0.1 "%s"' % past)
    am.update('a.example 10.0.0.1 "%s"' % soon)     # same reactor turn
    clock.advance(9)
    assert am.find('a.example').ip is not None
    clock.advance(2)
    try:
        am.find('a.example')
        raise AssertionError('mapping still present 11 s after an expiry 10 s away; timers: %r' % [c.getTime() for c in clock.getDelayedCalls()])
    except KeyError:
        pass
    print('OK')
finally:
    addrmap.datetime.datetime = datetime.datetime
