"""C08: Stream.close() called twice: both Deferreds complete when Tor reports the stream CLOSED.
Before the fix the first caller's Deferred was orphaned and never fired.
Run: PYTHONPATH=/repo /venv/bin/python demos/c08_stream_close_twice.py"""
from twisted.internet import defer
from zope.interface import implementer
from txtorcon import Stream
from txtorcon.interface import ICircuitContainer

@implementer(ICircuitContainer)
class CC(object):
    def find_circuit(self, cid):
        raise KeyError(cid)
    def close_stream(self, stream, **kw):
        return defer.succeed('OK')

s = Stream(CC())
s.update('1 NEW 0 example.com:80 SOURCE_ADDR=127.0.0.1:1234'.split())
got = []
d1 = s.close(); d1.addCallback(lambda x: got.append(('first', x)))
d2 = s.close(); d2.addCallback(lambda x: got.append(('second', x)))
assert got == [], got
s.update('1 CLOSED 0 example.com:80 REASON=DONE'.split())
assert sorted(g[0] for g in got) == ['first', 'second'], got
print('ok')
