"""C01/C13: a data-block line consisting of a space and a dot (' .') is data, not the block terminator.
Run: PYTHONPATH=/repo /venv/bin/python demos/c01_blank_dot_data_line.py"""
from twisted.internet.testing import StringTransport
from txtorcon import TorControlProtocol
p = TorControlProtocol(); p.makeConnection(StringTransport()); p.post_bootstrap.addErrback(lambda f: None)
p.command = None; p.commands[:] = []; p.defer = None
res = []
p.get_info_raw('k').addBoth(res.append)
p.dataReceived(b'250+k=\r\nline1\r\n .\r\nline3\r\n.\r\n250 OK\r\n')
assert res == ['k=\nline1\n .\nline3'], res
print('ok')
