"""C11: after CONF_CHANGED events list-valued options stay tracked lists (0, 1 or many values), an
option reported unset falls back to its default, and an unset Integer option on a Tor without
config/defaults does not abort the bootstrap.
Run: PYTHONPATH=/repo /venv/bin/python demos/c11_conf_changed_shapes.py"""
from twisted.internet import defer
from zope.interface import implementer
from txtorcon import TorConfig
from txtorcon.torconfig import _ListWrapper
from txtorcon.interface import ITorControlProtocol
from txtorcon.torcontrolprotocol import DEFAULT_VALUE, TorProtocolError

@implementer(ITorControlProtocol)
class P(object):
    def __init__(self, defaults=True):
        self.sets = []; self.defaults = defaults
        self.post_bootstrap = defer.succeed(self)
        self.listeners = {}
    def add_event_listener(self, evt, cb):
        self.listeners[evt] = cb; return defer.succeed(None)
    def get_info_raw(self, k):
        if k == 'config/names':
            return defer.succeed('config/names=\nLog LineList\nSocksPortLines Dependent\nSocksPort LineList\nMaxCircuitDirtiness Integer')
        if self.defaults:
            return defer.succeed('config/defaults=\nMaxCircuitDirtiness 600')
        return defer.fail(TorProtocolError(552, 'Unrecognized key'))
    def get_info(self, k): return defer.fail(RuntimeError('no'))
    def get_conf(self, k):
        return defer.succeed({k: {'Log': 'notice stdout', 'SocksPort': '9050', 'MaxCircuitDirtiness': DEFAULT_VALUE}[k]})
    def get_conf_single(self, k): return defer.succeed('')
    def set_conf(self, *args):
        self.sets.append(args); return defer.succeed('OK')

p = P()
cfg = TorConfig(p)
assert isinstance(cfg.Log, _ListWrapper) and isinstance(cfg.SocksPort, _ListWrapper)
p.listeners['CONF_CHANGED']('Log=debug stdout\nSocksPort=9051\nOK')
assert isinstance(cfg.Log, _ListWrapper), type(cfg.Log)
assert list(cfg.Log) == ['debug stdout'], cfg.Log
assert isinstance(cfg.SocksPort, _ListWrapper) and list(cfg.SocksPort) == ['9051'], repr(cfg.SocksPort)
cfg.Log.append('info file /tmp/x')          # read, edit, save keeps working
assert cfg.needs_save()
cfg.save()
assert p.sets == [('Log', 'debug stdout', 'Log', 'info file /tmp/x')], p.sets
p.listeners['CONF_CHANGED']('Log\nMaxCircuitDirtiness\nOK')      # both reported unset
assert isinstance(cfg.Log, _ListWrapper) and list(cfg.Log) == [], repr(cfg.Log)
assert cfg.MaxCircuitDirtiness == 600, cfg.MaxCircuitDirtiness

res = []
cfg2 = TorConfig(P(defaults=False))
cfg2.post_bootstrap.addBoth(res.append)
assert res and res[0] is cfg2, res
assert cfg2.MaxCircuitDirtiness == DEFAULT_VALUE
print('ok')
