"""C02: a 650 event arriving while a per-line-callback command is in flight goes to its
listeners, not to the callback; a listener that unsubscribes during delivery does not make
the next listener miss the event.
Run: PYTHONPATH=/repo /venv/bin/python demos/c02_event_during_linecb_and_selfremove.py"""
from twisted.internet.testing import StringTransport
from txtorcon import TorControlProtocol
from txtorcon.torcontrolprotocol import Event

p = TorControlProtocol()
p.makeConnection(StringTransport())
p.post_bootstrap.addErrback(lambda f: None)
p.commands[:] = []; p.command = None; p.defer = None      # skip auth for the demo
ev = Event('CONF_CHANGED'); p.valid_events['CONF_CHANGED'] = ev
got = []
p.add_event_listener('CONF_CHANGED', got.append)
p.dataReceived(b'250 OK\r\n')
lines = []
d = p.get_info_incremental('ns/all', lines.append)
p.dataReceived(b'650-CONF_CHANGED\r\n650-SocksPort=9050\r\n650 OK\r\n')
assert lines == [], 'event lines absorbed into the per-line callback: %r' % lines
assert got == ['SocksPort=9050\nOK'], got
p.dataReceived(b'250+ns/all=\r\nr x\r\n.\r\n250 OK\r\n')
assert lines == ['ns/all=', 'r x'], lines

e = Event('X'); seen = []
def a(data):
    seen.append('a'); e.unlisten(a)
def b(data):
    seen.append('b')
e.listen(a); e.listen(b)
e.got_update('1')
assert seen == ['a', 'b'], seen
print('ok')
