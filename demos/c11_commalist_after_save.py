"""C11/C10: a CommaList option assigned as a string and saved is read back as a *tracked* list.
Run: PYTHONPATH=/repo /venv/bin/python demos/c11_commalist_after_save.py"""
from twisted.internet import defer
from zope.interface import implementer
from txtorcon import TorConfig
from txtorcon.torconfig import _ListWrapper
from txtorcon.interface import ITorControlProtocol

@implementer(ITorControlProtocol)
class P(object):
    def __init__(self):
        self.sets = []
        self.post_bootstrap = defer.succeed(self)
    def add_event_listener(self, evt, cb): return defer.succeed(None)
    def get_info_raw(self, k):
        if k == 'config/names': return defer.succeed('config/names=\nExitNodes RouterList')
        return defer.succeed('config/defaults=')
    def get_info(self, k): return defer.fail(RuntimeError('no'))
    def get_conf(self, k): return defer.succeed({k: 'x'})
    def set_conf(self, *args):
        self.sets.append(args); return defer.succeed('OK')

p = P(); cfg = TorConfig(p)
assert isinstance(cfg.ExitNodes, _ListWrapper)
cfg.ExitNodes = 'a,b'
cfg.save()
assert list(cfg.ExitNodes) == ['a', 'b']
assert isinstance(cfg.ExitNodes, _ListWrapper), type(cfg.ExitNodes)
cfg.ExitNodes.append('c')
assert cfg.needs_save()
print('ok')
