"""C05: the method-selection reply and the request reply arrive in ONE segment (one of the segmentations of the
server's byte stream the property quantifies over): the attempt must resolve without waiting for further input.
Run: cd /repo && PYTHONPATH=/repo /venv/bin/python /verif/demos/c05_method_and_request_reply_coalesced.py"""
from txtorcon import socks

got, res, sent = [], [], []
class App(object):
    def dataReceived(self, d):
        got.append(d)
m = socks._SocksMachine('CONNECT', 'example.com', 80, on_data=sent.append, create_connection=lambda a, p: App())
m.when_done().addBoth(res.append)
m.connection()
m.feed_data(b'\x05\x00' + b'\x05\x00\x00\x01\x00\x00\x00\x00\x00\x00' + b'HELLO')
assert len(res) == 1 and isinstance(res[0], App), 'attempt not resolved: %r (buffer %r)' % (res, m._data)
assert got == [b'HELLO'], got
# failure reply coalesced with the method reply
res2 = []
m = socks._SocksMachine('CONNECT', 'example.com', 80, on_data=sent.append, create_connection=lambda a, p: App())
m.when_done().addBoth(res2.append)
m.connection()
m.feed_data(b'\x05\x00' + b'\x05\x05\x00\x01\x00\x00\x00\x00\x00\x00')
assert len(res2) == 1 and res2[0].check(socks.ConnectionRefusedError), res2
print('OK')
