"""C18: web.agent_for_socks_port asked for a port Tor already has, where Tor's line carries option words: the listener is
used as it is, Tor's configuration is not changed.
Run: cd /repo && PYTHONPATH=/repo /venv/bin/python /verif/demos/c18_agent_for_socks_port_with_options.py"""
from twisted.internet import defer
from txtorcon import TorConfig
from txtorcon.web import agent_for_socks_port

class Reactor(object):
    pass

cfg = TorConfig()
cfg.SocksPort = ['9050 IsolateDestAddr', '9150']
saves = []
cfg.__dict__['save'] = lambda: saves.append(list(cfg.SocksPort)) or defer.succeed(cfg)
res = []
agent_for_socks_port(Reactor(), cfg, '9050').addBoth(res.append)
assert saves == [], 'Tor was re-configured although 9050 is configured: %r' % saves
assert list(cfg.SocksPort) == ['9050 IsolateDestAddr', '9150'], list(cfg.SocksPort)
agent_for_socks_port(Reactor(), cfg, 9150).addBoth(res.append)
assert saves == [], saves
agent_for_socks_port(Reactor(), cfg, '9999').addBoth(res.append)
assert saves == [['9050 IsolateDestAddr', '9150', '9999']], saves
print('OK')
