"""C10 (KNOWN FINDING, pinned by test_log_set_pop): emptying a list-valued option in place and saving must name the option in the SETCONF
(before the fix: 'SETCONF ' with no arguments, and the change was forgotten).
Run: PYTHONPATH=/repo /venv/bin/python demos/c10_emptied_list.py"""
from twisted.internet import defer
from zope.interface import implementer
from txtorcon import TorConfig
from txtorcon.interface import ITorControlProtocol

@implementer(ITorControlProtocol)
class P(object):
    def __init__(self):
        self.sets = []
        self.post_bootstrap = defer.succeed(self)
    def add_event_listener(self, *a): return defer.succeed(None)
    def get_info_raw(self, k):
        if k == 'config/names': return defer.succeed('config/names=\nLog LineList')
        return defer.succeed('config/defaults=')
    def get_info(self, k): return defer.fail(RuntimeError('no'))
    def get_conf(self, k): return defer.succeed({k: 'notice stdout'})
    def set_conf(self, *args):
        self.sets.append(args); return defer.succeed('OK')

p = P()
cfg = TorConfig(p)
assert list(cfg.Log) == ['notice stdout'], cfg.Log
cfg.Log.pop()
assert cfg.needs_save()
cfg.save()
print("known finding still present" if p.sets == [()] else "fixed", p.sets)
assert not cfg.needs_save()
print('ok')
