"""C13: a data-block line that begins with '.' is dot-stuffed on the wire ('..x'); the parsed value has '.x'.
Run: PYTHONPATH=/repo /venv/bin/python demos/c13_dot_unstuffing.py"""
from twisted.internet.testing import StringTransport
from txtorcon import TorControlProtocol

p = TorControlProtocol()
p.makeConnection(StringTransport())
p.post_bootstrap.addErrback(lambda f: None)
p.command = None; p.commands[:] = []; p.defer = None
res = []
p.get_info('k').addBoth(res.append)
p.dataReceived(b'250+k=\r\n..dot\r\nx\r\n.\r\n250 OK\r\n')
assert res == [{'k': '\n.dot\nx'}], res
lines = []
p.get_info_incremental('k', lines.append)
p.dataReceived(b'250+k=\r\n..dot\r\n.\r\n250 OK\r\n')
assert lines == ['k=', '.dot'], lines
print('ok')
