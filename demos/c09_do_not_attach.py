"""C09: an attacher answering DO_NOT_ATTACH must make txtorcon send nothing for that stream
(before the fix it sent 'ATTACHSTREAM <id> 0', i.e. told Tor to attach the stream itself).
Run: PYTHONPATH=/repo /venv/bin/python demos/c09_do_not_attach.py"""
from zope.interface import implementer
from twisted.internet.testing import StringTransport
from twisted.internet import defer
from twisted.internet.interfaces import IReactorCore
from zope.interface import directlyProvides
from txtorcon import TorState, TorControlProtocol
from txtorcon.interface import IStreamAttacher

@implementer(IStreamAttacher)
class A(object):
    def __init__(self, answer): self.answer = answer
    def attach_stream(self, stream, circuits): return self.answer
    def attach_stream_failure(self, stream, fail): pass

def run(answer):
    proto = TorControlProtocol()
    proto.transport = StringTransport()
    sent = []
    proto.queue_command = lambda cmd, arg=None: sent.append(cmd) or defer.succeed('OK')
    proto.set_conf = lambda *a: defer.succeed('OK')
    st = TorState(proto, bootstrap=False)
    class R(object):
        def addSystemEventTrigger(self, *a): return 1
        def removeSystemEventTrigger(self, *a): pass
    r = R(); directlyProvides(r, IReactorCore)
    st.set_attacher(A(answer), r)
    st._stream_update('1 NEW 0 example.com:80 SOURCE_ADDR=127.0.0.1:1234 PURPOSE=USER')
    return [c for c in sent if b'ATTACHSTREAM' in (c if isinstance(c, bytes) else c.encode())]

assert run(None) == [b'ATTACHSTREAM 1 0'], run(None)
assert run(TorState.DO_NOT_ATTACH) == [], run(TorState.DO_NOT_ATTACH)
print('ok')
