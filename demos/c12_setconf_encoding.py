"""C12: SETCONF values are quoted/escaped so that Tor's parser yields exactly them, and a value with a
line break can never produce a second command line.
Run: PYTHONPATH=/repo /venv/bin/python demos/c12_setconf_encoding.py"""
from twisted.internet.testing import StringTransport
from txtorcon import TorControlProtocol

def tor_parse(line):
    """control.c style: space separated key=value; value either up to whitespace or a C-escaped QuotedString"""
    assert line.startswith('SETCONF ')
    body = line[len('SETCONF '):]
    out, i = [], 0
    while i < len(body):
        while i < len(body) and body[i] == ' ':
            i += 1
        if i >= len(body): break
        eq = body.index('=', i)
        key = body[i:eq]; i = eq + 1
        if i < len(body) and body[i] == '"':
            i += 1; val = ''
            while body[i] != '"':
                if body[i] == '\\':
                    i += 1
                val += body[i]; i += 1
            i += 1
        else:
            j = i
            while j < len(body) and body[j] not in ' \t':
                j += 1
            val = body[i:j]; i = j
        out.append((key, val))
    return out

def sent(*args):
    p = TorControlProtocol()
    p.makeConnection(StringTransport())
    p.post_bootstrap.addErrback(lambda f: None)
    p.transport.clear(); p.command = None; p.commands[:] = []
    res = []
    p.set_conf(*args).addBoth(res.append)
    return p.transport.value(), res

for vals in (['a"b c'], ['back\\slash and space'], ['"leading'], ['tab\there'], ['plain'], ['x', 'y z', '']):
    args = []
    for i, v in enumerate(vals):
        args += ['Key%d' % i, v]
    wire, res = sent(*args)
    assert wire.count(b'\r\n') == 1, wire
    got = tor_parse(wire.decode().rstrip('\r\n'))
    assert got == [('Key%d' % i, v) for i, v in enumerate(vals)], (vals, wire, got)

wire, res = sent('Foo', 'x\r\nSIGNAL HALT')
assert b'SIGNAL' not in wire and wire.count(b'\r\n') <= 1, wire
assert res and hasattr(res[0], 'value'), res        # failed, nothing written
print('ok')
