"""C18: adding a SOCKS port re-lists every existing SOCKSPort line exactly as Tor reported it (options kept);
TorConfig.create_socks_endpoint matches a requested port by its port token, not by substring.
Run: PYTHONPATH=/repo /venv/bin/python demos/c18_socks_port.py"""
from unittest.mock import Mock, patch
from twisted.internet import defer
from txtorcon import endpoints, TorConfig

sets = []
proto = Mock()
proto.get_conf = lambda k: defer.succeed({'SocksPort': ['9050 IsolateDestAddr', 'unix:/tmp/s WorldWritable']})
proto.set_conf = lambda *a: sets.append(a) or defer.succeed('OK')
res = []
with patch.object(endpoints, 'available_tcp_port', lambda r: defer.succeed(9999)):
    endpoints._create_socks_endpoint(Mock(), proto, socks_config='9151').addBoth(res.append)
assert sets == [('SOCKSPort', '9050 IsolateDestAddr', 'SOCKSPort', 'unix:/tmp/s WorldWritable', 'SOCKSPort', '9151')], sets
sets[:] = []
endpoints._create_socks_endpoint(Mock(), proto, socks_config='9050').addBoth(res.append)
assert sets == [], sets      # already configured: nothing changes

cfg = TorConfig()
cfg.SocksPort = ['9050 IsolateDestAddr']
cfg.save()
saved = []
cfg.__dict__['save'] = lambda: saved.append(list(cfg.SocksPort)) or defer.succeed(cfg)
r2 = []
cfg.create_socks_endpoint(Mock(), '905').addBoth(r2.append)
assert saved == [['9050 IsolateDestAddr', '905']], ('substring match treated 905 as configured', saved)
print('ok')
