"""C16: after a replacement consensus nothing is carried over: a relay that lost Guard leaves .guards,
IPv6 addresses don't accumulate, bandwidth is not kept when the 'w' line is gone; and an entry with
'p' but no 'w' line (allowed by dir-spec) parses.
Run: PYTHONPATH=/repo /venv/bin/python demos/c16_consensus_replacement.py"""
from twisted.internet.testing import StringTransport
from txtorcon import TorState, TorControlProtocol

proto = TorControlProtocol(); proto.transport = StringTransport()
st = TorState(proto, bootstrap=False)
R = 'r fake YkkmgCNRV1/35OPWDvo7+1bmfoo tanLV/4ZfzpYQW0xtGFqAa46foo 2011-12-12 16:29:16 12.45.56.78 443 80'
doc1 = '\n'.join([R, 'a [2001:db8::1]:443', 's Fast Guard Running Stable Valid Authority', 'w Bandwidth=518000', 'p reject 1-65535'])
doc2 = '\n'.join([R, 'a [2001:db8::1]:443', 's Fast Running Stable Valid', 'p reject 1-65535'])
st._update_network_status(doc1)
r = list(st.all_routers)[0]
assert r.id_hex in st.guards and r.ip_v6 == ['[2001:db8::1]:443'] and r.bandwidth == 518000
st._update_network_status(doc2)
r2 = list(st.all_routers)[0]
assert r2 is r, 'identity not kept'
assert st.guards == {}, ('stale guard', st.guards)
assert st.authorities == {}, ('stale authority', st.authorities)
assert r.ip_v6 == ['[2001:db8::1]:443'], r.ip_v6
assert r.bandwidth == 0, r.bandwidth
print('ok')
