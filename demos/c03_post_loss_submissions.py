"""C03: after connection loss, every later command fails exactly once (none pending, none re-fired).
Before the two fix: commits: AlreadyCalledError out of queue_command / second command pending forever.
Run: PYTHONPATH=/repo /venv/bin/python demos/c03_post_loss_submissions.py"""
from twisted.internet.testing import StringTransport
from twisted.python.failure import Failure
from twisted.internet.error import ConnectionLost
from txtorcon import TorControlProtocol

p = TorControlProtocol()
p.makeConnection(StringTransport())          # sends PROTOCOLINFO (in flight)
p.post_bootstrap.addErrback(lambda f: None)
res = []
for i in range(2):                            # two queued behind it
    p.queue_command('GETINFO q%d' % i).addBoth(res.append)
p.connectionLost(Failure(ConnectionLost()))
assert len(res) == 2 and all(isinstance(r, Failure) for r in res), res
for i in range(3):                            # submissions after the loss
    p.queue_command('GETINFO late%d' % i).addBoth(res.append)
assert len(res) == 5, 'pending after loss: %d of 5 resolved' % len(res)
assert all(isinstance(r, Failure) for r in res)
assert b'late' not in p.transport.value()
print('ok')
