"""C13: a data-block line that is exactly 'OK' is part of the value (all lines intact and in order).
Run: cd /repo && PYTHONPATH=/repo /venv/bin/python /verif/demos/c13_ok_line_inside_value.py"""
from twisted.internet.testing import StringTransport
from txtorcon import TorControlProtocol

p = TorControlProtocol()
p.makeConnection(StringTransport())
p.post_bootstrap.addErrback(lambda f: None)
p.command = None; p.commands[:] = []; p.defer = None
res = []
p.get_info('config-text').addBoth(res.append)
p.dataReceived(b'250+config-text=\r\nNickname foo\r\nOK\r\nContactInfo bar\r\n.\r\n250 OK\r\n')
assert res == [{'config-text': '\nNickname foo\nOK\nContactInfo bar'}], res
res = []
p.get_info('config-text').addBoth(res.append)
p.dataReceived(b'250+config-text=\r\nNickname foo\r\nOK\r\n.\r\n250 OK\r\n')
# known finding (not repaired): a value whose LAST line is 'OK' still loses it - after the reply's own terminator has been
# removed, parse_keywords cannot tell that line from a terminator, and event payloads rely on the trailing skip
print('known finding still present:', res != [{'config-text': '\nNickname foo\nOK'}])
print('OK')
