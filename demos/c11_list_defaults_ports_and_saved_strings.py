"""C11: (1) a list option with a single config/defaults line, (2) several initial values of a *Port option, (3) a *Port option
assigned as a string and saved - all three must stay flat tracked lists.
Run: cd /repo && PYTHONPATH=/repo /venv/bin/python /verif/demos/c11_list_defaults_ports_and_saved_strings.py (prints the three views)"""
from twisted.internet import defer
from txtorcon import TorConfig
from txtorcon.testutil import FakeControlProtocol

def boot(names, defaults, answers):
    p = FakeControlProtocol([])
    p.answers.append('config/names=\n' + names)
    p.answers.append('config/defaults=\n' + defaults if defaults else 'config/defaults=')
    for a in answers:
        p.answers.append(a)
    c = TorConfig(p)
    assert c.post_bootstrap.called, 'not bootstrapped'
    r = []
    c.post_bootstrap.addBoth(r.append)
    return c, p, r

# 1. single default line for a list option
c, p, r = boot('SomeThing LineList', 'SomeThing value0', [{'SomeThing': 'DEFAULT'}])
print('1:', r[0] if not isinstance(r[0], TorConfig) else list(c.SomeThing))
# 2. several initial values for a *Port option
c, p, r = boot('SocksPortLines Dependant', '', [{'SocksPort': ['9050', '9150 IsolateDestAddr']}])
print('2:', r[0] if not isinstance(r[0], TorConfig) else list(c.SocksPort))
# 3. *Port assigned as string and saved
c, p, r = boot('SocksPortLines Dependant', '', [{'SocksPort': '9050'}])
c.SocksPort = '9999'
c.save()
print('3:', type(c.SocksPort).__name__, c.SocksPort)
c, p, r = boot('SomeThing LineList', 'SomeThing value0', [{'SomeThing': 'DEFAULT'}])
assert list(c.SomeThing) == ['value0'], list(c.SomeThing)
c, p, r = boot('SocksPortLines Dependant', '', [{'SocksPort': ['9050', '9150 IsolateDestAddr']}])
assert list(c.SocksPort) == ['9050', '9150 IsolateDestAddr'], list(c.SocksPort)
c, p, r = boot('SocksPortLines Dependant', '', [{'SocksPort': '9050'}])
c.SocksPort = '9999'
c.save()
assert list(c.SocksPort) == ['9999'] and type(c.SocksPort).__name__ == '_ListWrapper', c.SocksPort
c.SocksPort.append('8888')
assert c.needs_save()
print('OK')
